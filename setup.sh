#!/usr/bin/env bash
# Builds /verif/.venv offline: python 3.12 (pyenv base of /venv) + z3-solver, cvc5, crosshair-tool,
# deal, icontract, jsonschema from the local wheelhouse, overlaid on /venv's site-packages
# (zorg editable from /repo/src + antlr4 + sqlmodel + ...).
set -euo pipefail
cd "$(dirname "$0")"
PY=/root/.pyenv/versions/3.12.1/bin/python
[ -x "$PY" ] || PY=$(/venv/bin/python -c 'import sys,os;print(os.path.realpath(sys.executable))')
if [ -x .venv/bin/python ] && .venv/bin/python -c 'import z3, jsonschema, zorg, antlr4' 2>/dev/null; then
  echo "setup: .venv already usable"; exit 0
fi
rm -rf .venv
"$PY" -m venv .venv
PIP_NO_INDEX=1 .venv/bin/pip install -q --no-index --find-links /opt/veriftools/wheels \
   z3-solver cvc5 crosshair-tool deal icontract jsonschema hypothesis >/dev/null
SP=$(.venv/bin/python -c 'import sysconfig;print(sysconfig.get_paths()["purelib"])')
echo "import site; site.addsitedir('/venv/lib/python3.12/site-packages')" > "$SP/zz_overlay.pth"
.venv/bin/python -c 'import z3, cvc5, jsonschema, zorg, antlr4, sqlmodel; print("setup: ok", z3.get_version_string())'
