#!/usr/bin/env bash
# usage: tools/try_mutant.sh <patch> <demo.py> <property-id> [notests]
# Confirms a seeded change on /repo itself (applied, checked, reverted): demo passes clean / fails patched,
# baseline suite still passes with the patch, and runs the property's quick check against it.
set -u
patch=$(realpath "$1"); demo=$(realpath "$2"); pid=$3; notests=${4:-}
cd /repo || exit 2
git diff --quiet || { echo "repo dirty"; exit 2; }
echo "--- demo on clean tree"; /venv/bin/python "$demo" >/tmp/demo_clean.log 2>&1; echo "exit=$? $(tail -1 /tmp/demo_clean.log)"
git apply "$patch" || { echo "patch does not apply"; exit 2; }
trap 'git -C /repo checkout -- . ; git -C /repo clean -fdq src' EXIT
echo "--- demo on patched tree"; /venv/bin/python "$demo" >/tmp/demo_patched.log 2>&1; echo "exit=$? $(tail -2 /tmp/demo_patched.log | tr '\n' ' ')"
if [ -z "$notests" ]; then echo "--- test suite on patched tree"; /venv/bin/python -m pytest -q -p no:cacheprovider --timeout=900 2>&1 | grep -E "passed|failed|error" | tail -1; fi
echo "--- ./check $pid --tier quick on patched tree"
cd /verif && ./check "$pid" --tier quick 2>&1 | grep -E "VIOLATION|KNOWN|^\[C|failed obligation|undecided|CRASH" | head -12; echo "check exit=${PIPESTATUS[0]}"
