#!/usr/bin/env bash
# Re-confirms every seeded change on a scratch copy of /repo (never /repo itself):
#   demo passes on the clean copy, fails with the patch; the repo's suite still passes with the patch;
#   the property's quick check reports a VIOLATION with the patch.
# Writes /verif/seeded/RESULTS.md.  usage: tools/verify_seeds.sh [ids...]
set -u
cd /verif
W=$(mktemp -d /tmp/seedrun.XXXXXX)
trap 'rm -rf "$W"' EXIT
git -C /repo archive HEAD | tar -x -C "$W"
out=${SEEDS_OUT:-/verif/seeded/RESULTS.md}
tmp="$out.$$.tmp"
{
echo "# Seeded changes: confirmation runs"
echo
echo "Each row was produced by tools/verify_seeds.sh on a scratch copy of /repo at $(git -C /repo log --format=%h -1) ($(date -u +%FT%TZ))."
echo
echo "| seed | demo clean | demo patched | suite with patch | quick check with patch |"
echo "|---|---|---|---|---|"
} > "$tmp"
for d in ${@:-$(ls -d seeded/C*-* | sort)}; do
  d=${d%/}; id=$(basename "$d"); pid=${id%%-*}
  if grep -q '"obsolete"' "$d/meta.json" 2>/dev/null; then echo "| $id | obsolete (see meta.json) | | | |" >> "$tmp"; continue; fi
  (cd "$W" && git init -q 2>/dev/null; true)
  rm -rf "$W/src"; git -C /repo archive HEAD src tests | tar -x -C "$W"
  dc=$(cd "$W" && PYTHONPATH="$W/src" /venv/bin/python "/verif/$d/demo.py" >/dev/null 2>&1; echo $?)
  if ! (cd "$W" && patch -p1 -s < "/verif/$d/patch.diff"); then echo "| $id | $dc | PATCH DOES NOT APPLY | | |" >> "$tmp"; continue; fi
  dp=$(cd "$W" && PYTHONPATH="$W/src" /venv/bin/python "/verif/$d/demo.py" >/dev/null 2>&1; echo $?)
  suite=$(cd "$W" && PYTHONPATH="$W/src" /venv/bin/python -m pytest -q -p no:cacheprovider --timeout=900 2>&1 | grep -E "passed|failed" | tail -1 | sed 's/ in .*//;s/, [0-9]* warnings//')
  chk=$(PYTHONPATH="$W/src" ZORG_SRC="$W/src" PYVC_NO_CACHE=1 timeout 3000 ./check "$pid" --tier quick 2>/dev/null | grep -c "^VIOLATION")
  echo "| $id | exit $dc | exit $dp | $suite | $chk VIOLATION line(s) |" >> "$tmp"
done
if [ $# -gt 0 ] && [ -f "$out" ]; then
  # partial run: replace / add only the rows of the given seeds
  python3 - "$out" "$tmp" <<'PY'
import sys, re
old, new = open(sys.argv[1]).read().split("\n"), open(sys.argv[2]).read().split("\n")
rows = {}
order = []
for ln in old + new:
    m = re.match(r"\| (C[0-9]+-[0-9]+) \|", ln)
    if m:
        if m.group(1) not in rows:
            order.append(m.group(1))
        rows[m.group(1)] = ln
head = [ln for ln in new if not re.match(r"\| C[0-9]+-[0-9]+ \|", ln) and ln.strip()]
head[1] = head[1].replace("Each row was", "Rows are re-run individually; the last (partial) run was")
key = lambda i: (int(i[1:3]), int(i.split("-")[1]))
open(sys.argv[1], "w").write("\n\n".join(head[:2]) + "\n\n" + "\n".join(head[2:]) + "\n" + "\n".join(rows[i] for i in sorted(order, key=key)) + "\n")
PY
  rm -f "$tmp"
else
  mv "$tmp" "$out"
fi
cat "$out"
