#!/usr/bin/env bash
# usage: tools/save_seed.sh <prop> <n> "<what it needs to manifest>" "<caught by>"
set -eu
pid=$1; n=$2; needs=$3; caught=$4
d=/verif/seeded/$pid-$n; mkdir -p "$d"
cp /tmp/mut/$pid/_out/patch$n.diff "$d/patch.diff"; cp /tmp/mut/$pid/_out/demo$n.py "$d/demo.py"
python3 - "$pid" "$n" "$needs" "$caught" <<'PY'
import json, sys
pid, n, needs, caught = sys.argv[1:5]
json.dump({"property": pid, "breaks": pid, "needs_to_manifest": needs, "source": "independent sub-agent given only the property text and a scratch worktree",
           "confirmed": "tools/try_mutant.sh: demo exits 0 on the clean tree and non-zero with the patch; baseline suite 84 passed with the patch applied to /repo (then reverted)",
           "caught_by": caught}, open(f"/verif/seeded/{pid}-{n}/meta.json", "w"), indent=1)
PY
