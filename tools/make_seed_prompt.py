#!/usr/bin/env python3
"""Writes the prompt given to an independent sub-agent that seeds faults for one property.
usage: tools/make_seed_prompt.py <property-id> <worktree-dir>   (prints the prompt)
The prompt contains ONLY the property's own text (statement, quantifier, anchors) and instructions; nothing from /verif."""
import json
import sys

pid, wt = sys.argv[1], sys.argv[2].rstrip("/")
p = next(json.loads(l) for l in open("/verif/properties.jsonl") if json.loads(l)["id"] == pid)
anch = p.get("anchors", {})
print(f"""You are helping to evaluate a verification effort by writing realistic *bugs* (seeded faults) for an open-source Python project, the Zettelkasten note manager `zorg` (ANTLR grammars for a .zo note format and a query language, compiled into domain models and SQLAlchemy/SQLite queries).

You work ONLY inside your own scratch git worktree of the project: {wt}  (source under {wt}/src/zorg, tests under {wt}/tests). Do not read or write anything under /repo or /verif. Do not commit anything.

How to run things in the worktree (the interpreter /venv/bin/python has all dependencies; PYTHONPATH makes it import the worktree's code instead of the installed copy):
  cd {wt} && PYTHONPATH={wt}/src /venv/bin/python -m pytest -q -p no:cacheprovider --timeout=900      # the existing test suite: 84 tests, ~25 s, all pass on the unchanged tree
  cd {wt} && PYTHONPATH={wt}/src /venv/bin/python your_demo.py
There is no network. The shell prints a harmless conda warning line on every command; ignore it.

THE PROPERTY the project is supposed to guarantee (id {pid}: {p['title']}):
  Statement: {p['statement']}
  Quantified over: {p['quantifier']['text']}
  Code that is meant to make it hold: {json.dumps(anch.get('mechanism', anch.get('files', [])), indent=1)}
  Observable at: {anch.get('observe_at', [])}

YOUR TASK: write TWO different, independent changes to the project's source (under src/zorg only, not tests, not generated parser files unless essential) such that each change
  (a) BREAKS the property above (some input / history / configuration now violates the statement), while
  (b) the code still imports and the ENTIRE existing test suite still passes (run it and confirm: 84 passed), and
  (c) the breakage needs something specific to manifest - an unusual input, a particular multi-step sequence of operations, a boundary value, or two cooperating code sites that each look fine alone - NOT something that ordinary use or the first smoke test would expose at once. Realistic mistakes a developer could make in a refactoring or 'small improvement' are ideal (off-by-one, wrong default, dropped reset, swapped branch, changed comparison, lost escaping, reordered effects, cache not invalidated ...). Make the two changes touch different mechanisms if possible.
For each change also write a demonstration: a small self-contained Python script (it may create temporary directories/files; use tempfile and clean up) that exits 0 and prints PASS on the UNCHANGED tree and exits non-zero (prints FAIL and what was observed vs expected by the property) with your change applied. Verify both directions yourself.

Deliverables, written to the directory {wt}/_out/ (create it):
  patch1.diff, patch2.diff   - `git diff` output of each change alone relative to the unchanged worktree (each must apply with `git apply` to a clean checkout)
  demo1.py, demo2.py         - the demonstrations
  notes.md                   - for each change: which part of the property it breaks, what exactly is needed for it to manifest, the commands you ran and their results (test suite result with the change, demo result with and without the change)
When you are done, restore the worktree's tracked files to the unchanged state (`git -C {wt} checkout -- .`), leaving only the untracked _out/ directory. Reply with a short summary of the two changes.""")
