"""C15 plan: saved-query references vs explicit conjunction on a real index (bounded)."""
import random
import re

from checks import c03 as C03
from checks.zdirlab import Lab

PROPERTY = "C15"
CONTRACTS = ["contracts.c15"]
LEVEL = "exploration"
EXPLANATION = (
    "Contract-based (all inputs, a local fact only): _group_if_needed splices a saved WHERE clause unchanged or inside one pair of "
    "parentheses, and a clause with an OR bar that is not already enclosed is enclosed. "
    "Bounded: acyclic sets of saved queries (S/O/G clauses, alternatives, parenthesised top-level alternatives, nested references, "
    "diamonds whose shared node itself contains a reference) are written as zoq files; for every referencing query (one or two "
    "alternatives of ordinary atoms and references) the notes returned through the reference are compared with the notes returned by "
    "the explicit, parenthesised conjunction on a real index; missing saved queries must be reported as an error. "
    "Known finding F23 (kind / priority atoms of an un-parenthesised conjunction pool with the surrounding group) is reproduced with an "
    "exact class; the earlier finding about clauses with `|` was repaired (b230dfb)."
)
ASSUMPTIONS = ["the saved-query graph is acyclic (hypothesis of the property)"]
TRUSTED = ["SQLAlchemy/SQLite, antlr4 (real stack)", "z3 5.1 / cvc5 1.0.3", "pyvc symbolic interpreter (engine/)"]

SAVED = {
    "works": "W #work",
    "either": "W +proj1 | @home",
    "todos": "S note W o | x | < | > O alpha G file",
    "nested": "W {works} !@desk",
    "deep": "W {nested} | {todos}",
    "bob": "S count(note) W %bob G none O create",
    "grouped": "W (+proj1 | +proj2) !#shared",
    "work-todo": "W #work o",                 # names are file names: dashes, dots and sub-directories are legal
    "team/open": "W o %bob",
    "diamond": "W {works} {nested}",          # `works` is reached along two paths (acyclic)
    "hot": "W {either} +proj1",               # a shared saved query that itself contains a reference ...
    "hot-open": "W o {hot}",                  # ... reached along two different paths
    "hot-note": "W - {hot}",
    "parens": "W (+proj1 #work) | (@home o)",  # top-level `|` between parenthesised alternatives
    "parens2": "W (o | x) +proj1 | (%bob)",
}


def where_of(name, paren=True):
    """the saved WHERE clause with nested references expanded, every reference parenthesised"""
    q = SAVED[name]
    words, on = [], False
    for w in q.split(" "):
        if w == "W":
            on = True
        elif w in ("O", "G"):
            on = False
        elif on:
            words.append(w)
    text = " ".join(words)
    return re.sub(r"\{(.*?)\}", lambda m: "(" + where_of(m.group(1)) + ")", text)


def zids(text):
    return sorted(set(re.findall(r"^(?:-|[ox~<>])(?: P[0-9])? (?:[0-9]{6} )?([0-9]{6}#[0-9A-Za-z]{2,3})", text, flags=re.M)))


def has_top_level_bar(text):
    depth = 0
    for i, ch in enumerate(text):
        depth += ch == "("
        depth -= ch == ")"
        if ch == "|" and depth == 0:
            return True
    return False


def is_f13(case) -> bool:
    """Known finding F13: some referenced saved WHERE clause (after expansion) has a top-level `|` and the reference is
    juxtaposed with other atoms."""
    return any(has_top_level_bar(where_of(n)) for n in case.get("refs", [])) and case.get("juxtaposed", False)


def _top_words(text):
    out, depth, cur = [], 0, ""
    for ch in text + " ":
        if ch == "(":
            depth += 1
        elif ch == ")":
            depth -= 1
        if ch == " " and depth == 0:
            if cur:
                out.append(cur)
            cur = ""
        else:
            cur += ch
    return out


def _pools(word):
    return bool(re.fullmatch(r"[-ox~<>]+|P[0-9](-[1-9])?", word))


def unparenthesised(name):
    """the saved WHERE clause as zorg splices it (nested references expanded, grouped only when it contains ' | ')"""
    q = SAVED[name]
    words, on = [], False
    for w in q.split(" "):
        if w == "W":
            on = True
        elif w in ("O", "G"):
            on = False
        elif on:
            words.append(w)
    text = " ".join(words)

    def sub(m):
        t = unparenthesised(m.group(1))
        return "(" + t + ")" if " | " in t else t

    return re.sub(r"\{(.*?)\}", sub, text)


def is_f23(case) -> bool:
    """Known finding F23: kind / priority atoms of a saved WHERE clause that is spliced without parentheses pool with the
    kind / priority atoms of the surrounding group (or of another reference) instead of being conjoined with them."""
    if not case.get("refs"):
        return False
    for parts in case.get("groups") or [case.get("parts", [])]:
        groups = []
        for p in parts:
            if p.startswith("{"):
                t = unparenthesised(p[1:-1])
                groups.append([w for w in _top_words(t) if _pools(w)] if " | " not in t else [])
            else:
                groups.append([p] if _pools(p) else [])
        if sum(1 for g in groups if g) >= 2:
            return True
    return False


def references(tier, seed):
    from zorg.service.swog import execute
    from zorg.service.swog._saved_queries import expand_saved_queries

    rng = random.Random(seed * 23 + 6)
    n = 200 if tier == "quick" else 2000
    fails, samples, nontriv = [], [], 0
    with Lab() as lab:
        for rel, t in C03.PAGES.items():
            lab.write(rel, t)
        lab.create()
        for name, q in SAVED.items():
            lab.write(f"zoq/{name}.zoq", f"# {q}\n#\n# SAVED QUERY GENERATED ON never.\n\nstale results\n")
        atoms = ["#work", "o", "-", "%bob", "f=p1", "n:5", "'note'", "P1-4", "[[p2]]", "!+proj2", "(x | ~)"]
        for i in range(n):
            # one or two alternatives; each is a juxtaposition of ordinary atoms and references
            groups, refs = [], []
            for gi in range(1 if rng.random() < 0.6 else 2):
                r = rng.sample(list(SAVED), rng.randint(1, 2) if gi == 0 else rng.randint(0, 2))
                others = rng.sample(atoms, rng.randint(0, 2) if r else rng.randint(1, 2))
                parts = others + ["{" + x + "}" for x in r]
                rng.shuffle(parts)
                groups.append(parts)
                refs += r
            q = " | ".join(" ".join(parts) for parts in groups)
            explicit = " | ".join(" ".join(p if not p.startswith("{") else "(" + where_of(p[1:-1]) + ")" for p in parts) for parts in groups)
            case = {"query": q, "explicit": explicit, "refs": refs, "juxtaposed": any(len(parts) > 1 for parts in groups), "parts": groups[0], "groups": groups}
            try:
                a = zids(execute(lab.zdir, lab.db_url, f"S note W {q} G none"))
                b = zids(execute(lab.zdir, lab.db_url, f"S note W {explicit} G none"))
            except Exception as e:
                fails.append({**case, "error": f"execute raised {type(e).__name__}: {str(e)[:200]}"})
                continue
            nontriv += bool(b)
            if a != b:
                fails.append({**case, "error": f"through the reference: {a}; explicit conjunction: {b}"})
            if i < 2:
                samples.append(case)
        # a reference to a saved query that does not exist is an error, never ignored
        for q in ("#work {nope}", "{nope}", "{works} {missing_too}"):
            try:
                out = execute(lab.zdir, lab.db_url, f"S note W {q} G none")
                fails.append({"query": q, "refs": [], "error": f"missing saved query ignored, result {out[:80]!r}"})
            except RuntimeError:
                pass
            except Exception as e:
                fails.append({"query": q, "refs": [], "error": f"unexpected {type(e).__name__}: {str(e)[:100]}"})
            if expand_saved_queries(lab.zdir, q) is not None:
                fails.append({"query": q, "refs": [], "error": "expand_saved_queries did not return None for a missing saved query"})
    return {"name": "references", "bound": f"{n} referencing queries (one or two alternatives of 0-2 ordinary atoms + 0-2 references) over 15 saved queries (names with '-' and '/', a diamond-shaped reference graph) (alternatives, nested references depth 3, S/O/G clauses) on a fixture index; + 3 missing-reference queries",
            "evaluations": n + 3, "distinct_nontrivial": nontriv, "failures": fails, "samples": samples, "replay_fn": "replay_ref"}


def replay_ref(case):
    return False, "recorded: " + case.get("error", "")


BOUNDED = [references]
