"""C07 plan: which contract modules, extra deductive obligations and bounded cross-checks."""
import time

from engine import extra, lexatn

PROPERTY = "C07"
CONTRACTS = ["contracts.c07"]
LEVEL = "proof"
EXPLANATION = (
    "pyvc VCs from the real AST of _get_next_id (complete unrolling, bounded-string encoding), ZIDManager.get_next "
    "(over the ghost map in next_ids.json) and dates.is_zid; rank bijection + history-freshness lemmas; "
    "lexer-language lemmas decided by product automata on the ATN of both generated lexers."
)
ASSUMPTIONS = [
    "A-ANTLR-LEX: generated lexers implement maximal munch with ties to the earlier rule over their serialized ATN",
    "dates lie in one century (the YYMMDD date part is injective on them) and strftime yields calendar dates (MM 01-12, DD 01-31)",
    "next_ids.json is only written by ZIDManager (values are suffixes previously stored by get_next)",
    "machine arithmetic: Python ints are unbounded, encoded as mathematical integers (exact)",
]
TRUSTED = ["antlr4 runtime ATN deserialiser", "z3 5.1 / cvc5 1.0.3", "pyvc symbolic interpreter (engine/), cross-checked by CPython differential in the thorough tier"]

ALPH = "0123456789ABCDEFGHJKLMNPRTUVWXYZabcdefhkmnorstuvwxz"
D = "0123456789"
FOLLOW = " \n]"  # what can follow a ZID that zorg writes: a space (first line of a note), a newline, ']' (zid link)


def lexer_lemmas(tier, seed):
    out = []
    for gname, mod, cls in [("file", "zorg.grammar.zorg_file.ZorgFileLexer", "ZorgFileLexer"),
                            ("query", "zorg.grammar.zorg_query.ZorgQueryLexer", "ZorgQueryLexer")]:
        t0 = time.time()
        L = lexatn.LexerATN(mod, cls)
        alloc = lexatn.seq_nfa([(D, False), (D, False), ("01", False), (D, False), ("0123", False), (D, False), ("#", False),
                                (ALPH, False), (ALPH, False), (ALPH, True)])
        obs = []
        if "ZID" not in L.rule_names:
            obs.append({"name": f"C07/lex/{gname}/in-ZID", "status": "refuted", "why": "no ZID rule in lexer", "detail": "L(alloc) <= L(ZID)"})
            out.append(extra.report(f"lexer:{cls}", obs, backend="automata", wall=time.time() - t0))
            continue
        zid = L.rule_names.index("ZID")
        w, n = lexatn.not_subset_witness(alloc, L.rule_nfa(zid))
        obs.append({"name": f"C07/lex/{gname}/in-ZID", "status": "proved" if w is None else "refuted", "detail": "every allocatable ZID is in L(ZID)",
                    "why": "" if w is None else f"allocatable {w!r} is not a ZID token", "model": {"text": w}})
        ties, ext = [], []
        for i in L.token_rules():
            if i == zid:
                continue
            nf = L.rule_nfa(i)
            if i < zid:
                w, _ = lexatn.intersect_witness(alloc, nf)
                if w is not None:
                    ties.append((L.rule_names[i], w))
            w, _ = lexatn.intersect_witness(lexatn.anything_after(alloc, FOLLOW), nf)
            if w is not None:
                ext.append((L.rule_names[i], w))
        # the ZID rule itself must not run past the follow character either
        w, _ = lexatn.intersect_witness(lexatn.anything_after(alloc, FOLLOW), L.rule_nfa(zid))
        if w is not None:
            ext.append(("ZID", w))
        obs.append({"name": f"C07/lex/{gname}/no-earlier-rule", "status": "proved" if not ties else "refuted", "vcs": len([i for i in L.token_rules() if i < zid]),
                    "detail": "no rule listed before ZID matches an allocatable ZID (ties go to the earlier rule)", "why": str(ties[:3]) if ties else "", "model": {"text": ties[0][1]} if ties else None})
        obs.append({"name": f"C07/lex/{gname}/not-extendable", "status": "proved" if not ext else "refuted", "vcs": len(L.token_rules()),
                    "detail": f"no rule matches alloc + one of {FOLLOW!r} + anything (maximal munch cannot run past the ZID)", "why": str(ext[:3]) if ext else "", "model": {"text": ext[0][1]} if ext else None})
        for o in obs:
            if o["status"] == "refuted" and o.get("model") and o["model"].get("text") is not None:
                o["replay_result"] = _lex_replay(mod, cls, o["model"]["text"])
        out.append(extra.report(f"lexer:{cls}", obs, backend="automata", wall=time.time() - t0, source=mod,
                                models=["A-ANTLR-LEX: maximal munch, ties to the earlier rule, over the serialized lexer ATN"]))
    return out


def _lex_replay(mod, cls, text):
    """Runs the real generated lexer on the witness."""
    import importlib

    import antlr4

    L = getattr(importlib.import_module(mod), cls)
    lx = L(antlr4.InputStream(text + " "))
    lx.removeErrorListeners()
    toks = lx.getAllTokens()
    names = [L.symbolicNames[t.type] if t.type < len(L.symbolicNames) else str(t.type) for t in toks]
    first = (names[0], toks[0].text) if toks else None
    zid = text.split(" ")[0].split("\n")[0].split("]")[0]
    ok = bool(toks) and names[0] == "ZID" and toks[0].text == zid
    return {"reproduced": not ok, "observed": f"first token {first}, all {list(zip(names, [t.text for t in toks]))[:6]}"}


def chain_walk(tier, seed):
    """CPython cross-check of the encoding: walks the whole successor chain through the real function."""
    from zorg.storage.sql import _zid_manager as zm
    from contracts import c07

    limit = 135252 if tier == "thorough" else 3000
    cur, seen, fails = "00", set(), []
    n = 0
    while n < limit:
        if cur in seen or not c07.wf_suffix(cur) or c07.rank(cur) != n:
            fails.append({"suffix": cur, "index": n})
            break
        seen.add(cur)
        n += 1
        try:
            cur = zm._get_next_id(cur)
        except RuntimeError:
            if cur != "zzz":
                fails.append({"suffix": cur, "index": n, "raised": True})
            break
    return {"name": "chain_walk", "bound": f"first {limit} suffixes of the successor chain through the real _get_next_id", "evaluations": n,
            "distinct_nontrivial": len(seen), "failures": fails, "samples": [{"suffix": "00", "rank": 0}, {"last_visited": cur}], "exhaustive": limit >= 135252}


def recognition(tier, seed):
    """'recognised by every component' end to end: ZIDs allocated by the real ZIDManager on every day of a leap year and a common
    year (plus century boundaries) are accepted by dates.is_zid, lexed as one ZID token by both lexers, and read back as the
    note's ZID when a page carrying them is compiled."""
    import datetime as dt
    import shutil
    import tempfile
    from pathlib import Path

    import antlr4
    from zorg.grammar.zorg_file.ZorgFileLexer import ZorgFileLexer
    from zorg.grammar.zorg_query.ZorgQueryLexer import ZorgQueryLexer
    from zorg.service.compiler import walk_zorg_page
    from zorg.shared import dates as zdt
    from zorg.storage.sql._zid_manager import ZIDManager

    root = Path(tempfile.mkdtemp(prefix="zorgverif-c07r-"))
    fails, n = [], 0
    try:
        days = [dt.date(2024, 1, 1) + dt.timedelta(days=i) for i in range(366)] + [dt.date(2023, 2, 28), dt.date(2023, 3, 1), dt.date(2000, 2, 29), dt.date(2099, 12, 31), dt.date(2100, 2, 28), dt.date(2028, 2, 29)]
        if tier == "quick":
            days = [d for i, d in enumerate(days) if d.day in (1, 28, 29, 30, 31) or i % 9 == 0]
        man = ZIDManager(root)
        zids = []
        for d in days:
            for _ in range(2):
                zids.append((d, man.get_next(d)))
        for d, z in zids:
            n += 1
            if not zdt.is_zid(z):
                fails.append({"suffix": z, "index": n, "what": f"is_zid rejects the allocated ZID {z}"})
                continue
            for name, L in (("file", ZorgFileLexer), ("query", ZorgQueryLexer)):
                toks = [t for t in L(antlr4.InputStream(z)).getAllTokens()]
                if len(toks) != 1 or toks[0].type != L.ZID:
                    fails.append({"suffix": z, "index": n, "what": f"{name} lexer reads {z} as token types {[t.type for t in toks]} (ZID is {L.ZID})"})
        # one page per 40 ZIDs: every note's ZID is read back
        for k in range(0, len(zids), 40):
            chunk = zids[k:k + 40]
            p = root / f"p{k}.zo"
            p.write_text("# Recognition\n\n" + "".join((f"- {z} plain note\n" if i % 3 == 0 else f"o P1 {z} a todo\n" if i % 3 == 1 else f"- 240102 {z} with a modify date\n") for i, (d, z) in enumerate(chunk)) + "\n")
            got = [nt.zid for nt in walk_zorg_page(root, Path(p.name)).notes]
            want = [z for _, z in chunk]
            if got != want:
                bad = [(w, g) for w, g in zip(want, got + [None] * len(want)) if w != g][:3]
                fails.append({"suffix": bad[0][0] if bad else "?", "index": k, "what": f"recompiled page reads ZIDs {bad} (written, read)"})
    finally:
        shutil.rmtree(root, ignore_errors=True)
    return {"name": "recognition", "bound": f"{len(zids)} ZIDs allocated by the real ZIDManager on {len(days)} days (every day of a leap year in the thorough tier; month ends, 29 February, century boundaries) through is_zid, both lexers and recompilation",
            "evaluations": n, "distinct_nontrivial": n, "failures": fails, "samples": [{"zid": zids[0][1]}], "replay_fn": "replay_recognition"}


def replay_recognition(case):
    from zorg.shared import dates as zdt

    ok = zdt.is_zid(case["suffix"]) if isinstance(case.get("suffix"), str) else False
    return ok, case.get("what", "")


def replay_case(case):
    from zorg.storage.sql import _zid_manager as zm
    from contracts import c07

    s = case["suffix"]
    return (c07.wf_suffix(s) and c07.rank(s) == case["index"]), f"suffix {s!r} at index {case['index']}"


EXTRA = [lexer_lemmas]
BOUNDED = [chain_walk, recognition]
