"""Abstract .zo pages -> text + the notes the *property statements* (C01, C02) say they contain.

The oracle below is written from the statements, not from the compiler: one note per item in
document order; kind from the prefix character; priority explicit or P3; body = the item's lines
after the prefix, verbatim up to outer whitespace; line = first line; ZID / create / modify date from
the first (two) word(s); metadata = own + title line + enclosing section headers (properties:
any header-block line), innermost wins, digit-only tags dropped, in-block comments contribute nothing.
"""
from __future__ import annotations

import datetime as dt
import random
from dataclasses import dataclass, field
from typing import Optional

KINDS = {"-": "BASIC", "o": "OPEN_TODO", "x": "CLOSED_TODO", "~": "CANCELED_TODO", "<": "BLOCKED_TODO", ">": "PARENT_TODO"}
HDR = {1: "#" * 32, 2: "=" * 24, 3: "+" * 16, 4: "-" * 8}
TAG_SYM = {"areas": "#", "contexts": "@", "people": "%", "projects": "+"}


@dataclass
class Deco:
    """Decorations written in one scope (title line, header line, section header, item)."""
    tags: list[tuple[str, str]] = field(default_factory=list)   # (kind, value)
    links: list[str] = field(default_factory=list)               # rendered link text, e.g. "[[page]]"
    props: list[tuple[str, str]] = field(default_factory=list)
    date: Optional[dt.date] = None

    def render(self) -> list[str]:
        out = [f"{TAG_SYM[k]}{v}" for k, v in self.tags] + list(self.links) + [f"{k}::{v}" for k, v in self.props]
        if self.date:
            out.append(self.date.isoformat())
        return out


def link_value(text: str) -> str:
    if text.startswith("[["):
        return text[2:-2]
    if text.startswith("[#"):
        return "global:" + text[2:-1]
    if text.startswith("[^"):
        return "local:" + text[2:-1]
    if text.startswith("[@"):
        return "ref:" + text[2:-1]
    if text.startswith("https://") or text.startswith("http://"):
        return "x:" + text
    return "zid:" + text[1:-1]


@dataclass
class Item:
    kind: str                                  # one of KINDS or "#" for an in-block comment
    priority: Optional[str] = None             # explicit Pn (todos only)
    mdate: Optional[dt.date] = None            # leading YYMMDD word
    zid: Optional[str] = None                  # leading ZID word
    cdate: Optional[dt.date] = None            # leading YYYY-MM-DD word (only without zid/mdate)
    words: list[str] = field(default_factory=list)       # plain body words of the first line (look-alikes included)
    deco: Deco = field(default_factory=Deco)
    extra_lines: list[str] = field(default_factory=list)  # continuation lines / bullets (already indented)
    extra_deco: Deco = field(default_factory=Deco)        # decorations appended to the last extra line
    spacing: str = " "                                    # separator after the prefix

    def first_line_words(self) -> list[str]:
        w = []
        if self.mdate:
            w.append(self.mdate.strftime("%y%m%d"))
        if self.zid:
            w.append(self.zid)
        if self.cdate:
            w.append(self.cdate.isoformat())
        return w + self.words + self.deco.render()

    def render(self) -> str:
        if self.kind == "#":
            return "# " + " ".join(self.words + self.deco.render()) + "\n"
        pre = self.kind + (f" {self.priority}" if self.priority else "")
        first = pre + self.spacing + " ".join(self.first_line_words())
        lines = [first] + list(self.extra_lines)
        if self.extra_lines and self.extra_deco.render():
            lines[-1] = lines[-1] + " " + " ".join(self.extra_deco.render())
        return "\n".join(lines) + "\n"


@dataclass
class Section:
    level: int
    title: list[str]
    deco: Deco = field(default_factory=Deco)
    blocks: list[list[Item]] = field(default_factory=list)
    subs: list["Section"] = field(default_factory=list)


@dataclass
class APage:
    title: list[str]
    title_deco: Deco = field(default_factory=Deco)
    header_lines: list[tuple[list[str], Deco]] = field(default_factory=list)  # further "# ..." lines of the header block
    top_blocks: list[list[Item]] = field(default_factory=list)
    top_h2s: list[Section] = field(default_factory=list)
    h1s: list[Section] = field(default_factory=list)


# ---------------------------------------------------------------------------------------------
# rendering (keeps track of line numbers)
# ---------------------------------------------------------------------------------------------
def render(p: APage):
    """Returns (text, expected_notes) where expected notes follow the statement."""
    out: list[str] = []
    expected: list[dict] = []

    def emit(s: str):
        out.append(s)

    def lineno() -> int:
        return "".join(out).count("\n") + 1

    emit("# " + " ".join(p.title + p.title_deco.render()) + "\n")
    for words, d in p.header_lines:
        emit("# " + " ".join(words + d.render()) + "\n")
    emit("\n")
    file_scope = _scope_of(p.title_deco)
    for _, d in p.header_lines:  # later header lines: properties only
        for k, v in d.props:
            file_scope["props"][k] = v

    def do_blocks(blocks, scopes, path):
        for bi, blk in enumerate(blocks):
            for it in blk:
                ln = lineno()
                emit(it.render())
                if it.kind != "#":
                    expected.append(_expect(it, ln, scopes, path, bi))
            emit("\n")

    def do_section(sec: Section, scopes, path):
        emit(HDR[sec.level] + " " + " ".join(sec.title + sec.deco.render()) + "\n")
        sc = scopes + [_scope_of(sec.deco)]
        pth = path + [" ".join(sec.title + sec.deco.render())]
        do_blocks(sec.blocks, sc, pth)
        for s in sec.subs:
            do_section(s, sc, pth)

    do_blocks(p.top_blocks, [file_scope], [])
    for s in p.top_h2s:
        do_section(s, [file_scope], [""])
    for s in p.h1s:
        do_section(s, [file_scope], [])
    return "".join(out), expected


def _scope_of(d: Deco) -> dict:
    sc = {"tags": {k: [] for k in TAG_SYM}, "links": [], "props": {}, "date": d.date}
    for k, v in d.tags:
        if not v.isdigit():
            sc["tags"][k].append(v)
    sc["links"] = [link_value(x) for x in d.links]
    for k, v in d.props:
        sc["props"][k] = v
    return sc


def _expect(it: Item, ln: int, scopes: list[dict], path, block_idx) -> dict:
    body_first = it.spacing[1:] + " ".join(it.first_line_words()) if False else " ".join(it.first_line_words())
    lines = [body_first] + list(it.extra_lines)
    if it.extra_lines and it.extra_deco.render():
        lines[-1] = lines[-1] + " " + " ".join(it.extra_deco.render())
    body = "\n".join(lines).strip()
    own = _scope_of(Deco(it.deco.tags + it.extra_deco.tags, it.deco.links + it.extra_deco.links, it.deco.props + it.extra_deco.props, None))
    allsc = scopes + [own]
    tags = {k: sorted({v for sc in allsc for v in sc["tags"][k]}) for k in TAG_SYM}
    links = sorted({v for sc in allsc for v in sc["links"]})
    props: dict = {}
    for sc in allsc:  # outermost first: innermost wins
        props.update(sc["props"])
    zid_date = dt.datetime.strptime("20" + it.zid[:6], "%Y%m%d").date() if it.zid else None
    own_date = zid_date or it.cdate
    inherited = None
    for sc in reversed(scopes):
        if sc["date"]:
            inherited = sc["date"]
            break
    create = own_date or inherited  # None means "today"
    return {
        "kind": KINDS[it.kind],
        "priority": (it.priority or "P3") if it.kind != "-" else None,
        "body": body,
        "line": ln,
        "zid": it.zid,
        "create": create,
        "modify": it.mdate or create,
        "tags": tags,
        "links": links,
        "props": props,
        "path": list(path),
    }


def observed(note) -> dict:
    tp = note.todo_payload
    return {
        "kind": tp.status.name if tp else "BASIC",
        "priority": tp.priority if tp else None,
        "body": note.body,
        "line": note.line_no,
        "zid": note.zid,
        "create": note.create_date,
        "modify": note.modify_date,
        "tags": {"areas": sorted(note.areas), "contexts": sorted(note.contexts), "people": sorted(note.people), "projects": sorted(note.projects)},
        "links": sorted(note.links),
        "props": dict(note.properties),
    }


def diff_notes(exp: list[dict], got: list[dict], today: dt.date) -> Optional[str]:
    if len(exp) != len(got):
        return f"expected {len(exp)} notes, compiled {len(got)}"
    for i, (e, g) in enumerate(zip(exp, got)):
        for k in ("kind", "priority", "body", "line", "zid", "tags", "links", "props"):
            if e[k] != g[k]:
                return f"note {i} (line {e['line']}): {k}: expected {e[k]!r}, compiled {g[k]!r}"
        for k in ("create", "modify"):
            ev = e[k] or today
            if ev != g[k]:
                return f"note {i} (line {e['line']}): {k} date: expected {ev}, compiled {g[k]}"
    return None


# ---------------------------------------------------------------------------------------------
# random generation
# ---------------------------------------------------------------------------------------------
PLAIN = ["foo", "bar", "Baz", "qux1", "a_b", "note", "todo", "x1", "ok"]
LOOKALIKE = ["o", "x", "P5", "P0", "1230", "0915", "240229", "2024-02-29", "231231#ZZ", "9", "42"]
TAGVALS = ["home", "work", "a1", "Z_9", "2024", "7"]          # the last two are digit-only: must be dropped
PAGES = ["page", "dir/sub", "other_page", "p#anchor"]
KEYS = ["due", "who", "k1", "Key_2"]
VALS = ["v1", "240101", "bob", "2", "x_y"]
DATES = [dt.date(2024, 2, 29), dt.date(2023, 12, 31), dt.date(2024, 1, 1), dt.date(2022, 6, 15)]
ZCH = "0123456789ABCDEFGHJKLMNPRTUVWXYZabcdefhkmnorstuvwxz"


def rand_deco(rng, p=0.5, with_date=True) -> Deco:
    d = Deco()
    if rng.random() < p:
        for _ in range(rng.randint(1, 2)):
            d.tags.append((rng.choice(list(TAG_SYM)), rng.choice(TAGVALS)))
    if rng.random() < p * 0.6:
        k = rng.random()
        d.links.append(f"[[{rng.choice(PAGES)}]]" if k < 0.5 else rng.choice(["[#G1]", "[^loc1]", "[@ref1]", "[240101#AB]"]))
    if rng.random() < p * 0.7:
        d.props.append((rng.choice(KEYS), rng.choice(VALS)))
    if with_date and rng.random() < p * 0.5:
        d.date = rng.choice(DATES)
    return d


def rand_zid(rng) -> str:
    d = rng.choice(DATES)
    # first character from the upper half of the alphabet: never collides with what a fresh allocator hands out first
    return d.strftime("%y%m%d") + "#" + rng.choice(ZCH[26:]) + "".join(rng.choice(ZCH) for _ in range(rng.choice([1, 1, 2])))


def rand_item(rng, allow_comment=True) -> Item:
    if allow_comment and rng.random() < 0.12:
        return Item("#", words=[rng.choice(PLAIN)], deco=rand_deco(rng, 0.7))
    kind = rng.choice(list(KINDS))
    it = Item(kind)
    if kind != "-" and rng.random() < 0.5:
        it.priority = f"P{rng.randint(0, 9)}"
    r = rng.random()
    if r < 0.25:
        it.zid = rand_zid(rng)
    elif r < 0.4:
        it.mdate = rng.choice(DATES)
        it.zid = rand_zid(rng)
    elif r < 0.48:
        it.mdate = rng.choice(DATES)
    elif r < 0.58:
        it.cdate = rng.choice(DATES)
    n = rng.randint(1, 3)
    it.words = [rng.choice(PLAIN if rng.random() < 0.6 else LOOKALIKE) for _ in range(n)]
    if not (it.zid or it.mdate or it.cdate) and it.words[0] in LOOKALIKE:
        it.words[0] = rng.choice(PLAIN)  # a look-alike *first* word is an identity word, not a body word
    if it.mdate and not it.zid and it.words[0] in LOOKALIKE:
        it.words[0] = rng.choice(PLAIN)
    it.deco = rand_deco(rng, 0.5, with_date=False)
    if rng.random() < 0.3:
        for _ in range(rng.randint(1, 2)):
            pre = rng.choice(["  ", "  * ", "    - ", "   "])
            it.extra_lines.append(pre + " ".join(rng.choice(PLAIN + LOOKALIKE[:6]) for _ in range(rng.randint(1, 3))))
        it.extra_deco = rand_deco(rng, 0.4, with_date=False)
    return it


def rand_blocks(rng, maxb=2, maxi=3):
    return [[rand_item(rng) for _ in range(rng.randint(1, maxi))] for _ in range(rng.randint(0, maxb))]


def rand_section(rng, level, depth_p=0.6) -> Section:
    s = Section(level, [rng.choice(PLAIN).capitalize() + str(level)], rand_deco(rng, 0.6), rand_blocks(rng))
    if level < 4:
        while rng.random() < depth_p / 1.5:
            s.subs.append(rand_section(rng, level + 1, depth_p * 0.8))
    return s


def rand_page(rng) -> APage:
    p = APage([rng.choice(PLAIN).capitalize(), "page"], rand_deco(rng, 0.6))
    for _ in range(rng.randint(0, 2)):
        p.header_lines.append(([rng.choice(PLAIN)], rand_deco(rng, 0.7)))
    p.top_blocks = rand_blocks(rng)
    while rng.random() < 0.3:
        p.top_h2s.append(rand_section(rng, 2))
    while rng.random() < 0.55:
        p.h1s.append(rand_section(rng, 1))
    return p
