"""C04 plan: contracts on the query-compiler helpers and date functions + render/compile round trip."""
import datetime as dt
import random

PROPERTY = "C04"
CONTRACTS = ["contracts.c04"]
LEVEL = "other"
EXPLANATION = (
    "Contract-based (all inputs): _split_op_value, _get_value_type, _get_desc_filter, _add_priorities (every PRIORITY(-n) spelling), "
    "_process_query (CLI normalisation), dates.is_short_date_spec / is_long_date_spec / _is_relative_date_spec / is_date_spec / "
    "from_date_spec dispatch / _from_relative_date_spec (sign, count, unit; month and year arithmetic through an assumed relativedelta "
    "contract) are verified against clauses taken from the statement; enterGroup_by_body / enterOrder_by_body compile a clause into the "
    "dimensions / keys its atoms spell, in order, `none` contributing no grouping dimension (lists of <= 2 / 3 atoms, bounded-symbolic). "
    "The listener's stack discipline over every parse tree is "
    "covered by the bounded round trip: query structures are rendered to text by a spec-side renderer and compiled back."
)
ASSUMPTIONS = ["A-ANTLR-TREE for the query grammar", "dateutil.relativedelta months/years arithmetic (end-of-month clamping) is trusted",
               "identifiers over [A-Za-z0-9_], calendar-valid dates"]
TRUSTED = ["antlr4 runtime", "dateutil", "z3 5.1 / cvc5 1.0.3", "pyvc symbolic interpreter (engine/)"]

TAGCH = {"areas": "#", "contexts": "@", "people": "%", "projects": "+"}
KIND_CH = {"BASIC": "-", "OPEN_TODO": "o", "CLOSED_TODO": "x", "CANCELED_TODO": "~", "BLOCKED_TODO": "<", "PARENT_TODO": ">"}


def render_date(spec):
    return spec  # dates are kept as the text they were generated from


def render_and(af, spec_of) -> str:
    from zorg.domain.types import DescOperator, PropertyOperator as PO

    atoms = []
    if af.allowed_note_types:
        # one atom per kind character ("ox" would lex as an identifier); symbols may be juxtaposed
        syms = [KIND_CH[t.name] for t in sorted(af.allowed_note_types, key=lambda t: t.name)]
        letters = [c for c in syms if c in "ox"]
        others = "".join(c for c in syms if c not in "ox")
        atoms.extend(letters)
        if others:
            atoms.append(others)
    for lo, hi in spec_of.get(id(af), {}).get("prio", []):
        atoms.append(f"P{lo}" if lo == hi else f"P{lo}-{hi}")
    for kind, ch in TAGCH.items():
        for v in sorted(getattr(af, kind)):
            atoms.append(("!" if v.startswith("-") else "") + ch + v.lstrip("-"))
    for text in spec_of.get(id(af), {}).get("dates", []):
        atoms.append(text)
    for pf in sorted(af.property_filters, key=repr):
        op = {PO.EXISTS: "*", PO.EQ: "", PO.LT: "<", PO.LE: "<=", PO.GT: ">", PO.GE: ">="}[pf.op]
        atoms.append(("!" if pf.negated else "") + pf.key + ":" + (op if pf.op == PO.EXISTS else op + pf.value))
    for df in sorted(af.desc_filters, key=repr):
        q = '"' if "'" in df.value else "'"
        atoms.append(("!" if df.op == DescOperator.NOT_CONTAINS else "") + ("c" if df.case_sensitive else "") + q + df.value + q)
    for ff in sorted(af.file_filters, key=repr):
        g = ff.path_glob[:-3] if ff.path_glob.endswith(".zo") else ff.path_glob
        atoms.append(("!" if ff.negated else "") + "f=" + g)
    for lf in sorted(af.link_filters, key=repr):
        atoms.append(("!" if lf.negated else "") + "[[" + lf.link + "]]")
    for of in af.or_filters:
        atoms.append("(" + render_or(of, spec_of) + ")")
    return " ".join(atoms)


def render_or(of, spec_of) -> str:
    return " | ".join(render_and(a, spec_of) for a in of.and_filters)


def rand_and(rng, spec_of, today, depth=0):
    from zorg.domain.models import WhereAndFilter, WhereOrFilter
    from zorg.domain.models._query import DateRange, DescFilter, FileFilter, LinkFilter, PropertyFilter
    from zorg.domain.types import DescOperator, NoteType, PropertyOperator as PO, PropertyValueType as PT
    from dateutil.relativedelta import relativedelta

    af = WhereAndFilter()
    meta = spec_of.setdefault(id(af), {"prio": [], "dates": []})
    kinds = rng.sample(["type", "prio", "tag", "cdate", "mdate", "prop", "desc", "file", "link", "sub"], rng.randint(1, 4))
    for k in kinds:
        neg = rng.random() < 0.3
        if k == "type":
            af.allowed_note_types |= set(rng.sample(list(NoteType), rng.randint(1, 4)))
        elif k == "prio":
            for _ in range(rng.randint(1, 2)):
                lo = rng.randint(0, 9)
                hi = rng.randint(max(lo, 1), 9) if rng.random() < 0.6 else lo
                meta["prio"].append((lo, hi))
                af.priorities |= {f"P{i}" for i in range(lo, hi + 1)}
        elif k == "tag":
            for _ in range(rng.randint(1, 2)):
                kind = rng.choice(list(TAGCH))
                getattr(af, kind).add(("-" if rng.random() < 0.3 else "") + rng.choice(["work", "a1", "Z_9", "x2y"]))
        elif k in ("cdate", "mdate"):
            def one():
                r = rng.random()
                if r < 0.4:
                    d = dt.date(2024, rng.randint(1, 12), rng.randint(1, 28))
                    return d.strftime("%y%m%d"), d
                n = rng.randint(0, 40)
                unit = rng.choice("dmy")
                sign = rng.choice(["", "-"])
                delta = dt.timedelta(days=n) if unit == "d" else relativedelta(months=n) if unit == "m" else relativedelta(years=n)
                return f"{sign}{n}{unit}", (today - delta if sign else today + delta)
            s_txt, s = one()
            if rng.random() < 0.5:
                e_txt, e = one()
                text, rngobj = f"{s_txt}:{e_txt}", DateRange(s, e)
            else:
                text, rngobj = s_txt, DateRange(s, None)
            meta["dates"].append(("^" if k == "cdate" else "$") + text)
            (af.create_date_ranges if k == "cdate" else af.modify_date_ranges).add(rngobj)
        elif k == "prop":
            key = rng.choice(["due", "n", "Key_2", "who"])
            op = rng.choice(list(PO))
            if op == PO.EXISTS:
                af.property_filters.add(PropertyFilter(key, negated=neg))
            else:
                # values must be `id` tokens: short / relative dates lex as ZDATE and are not well-formed property values
                v, t = rng.choice([("2024-01-05", PT.DATE), ("2023-12-31", PT.DATE), ("5", PT.INTEGER), ("12", PT.INTEGER), ("007", PT.INTEGER),
                                   ("abc", PT.STRING), ("x_y", PT.STRING), ("a1b2", PT.STRING)])
                af.property_filters.add(PropertyFilter(key, v, op, t, neg))
        elif k == "desc":
            v = rng.choice(["foo", "Foo bar", "a_b", "50%", "it's", "x y z", "(paren)"])
            af.desc_filters.add(DescFilter(v, rng.choice([None, True]), DescOperator.NOT_CONTAINS if neg else DescOperator.CONTAINS))
        elif k == "file":
            af.file_filters.add(FileFilter(rng.choice(["p1.zo", "dir/p2.zo", "p*", "*_done.zo", "*a*", "a/b/c.zo"]), neg))
        elif k == "link":
            af.link_filters.add(LinkFilter(rng.choice(["p1", "dir/sub", "other_page"]), neg))
        elif k == "sub" and depth < 3:
            af.or_filters.append(WhereOrFilter([rand_and(rng, spec_of, today, depth + 1) for _ in range(rng.randint(1, 3))]))
    if not render_and(af, spec_of):
        af.areas.add("work")
    return af


def _norm_pf(pf):
    from zorg.domain.types import PropertyOperator as PO

    return (pf.key, pf.negated, "EXISTS") if pf.op == PO.EXISTS else (pf.key, pf.negated, pf.op.name, pf.value, pf.value_type.name)


def diff_or(g, w, path):
    ga, wa = list(g.and_filters), list(w.and_filters)
    if len(ga) != len(wa):
        return f"{path}: {len(ga)} alternatives, expected {len(wa)}"
    for i, (a, b) in enumerate(zip(ga, wa)):
        for f in ("allowed_note_types", "areas", "contexts", "people", "projects", "priorities", "create_date_ranges", "modify_date_ranges",
                  "desc_filters", "file_filters", "link_filters"):
            if getattr(a, f) != getattr(b, f):
                return f"{path}[{i}].{f}: compiled {sorted(map(str, getattr(a, f)))} expected {sorted(map(str, getattr(b, f)))}"
        if {_norm_pf(x) for x in a.property_filters} != {_norm_pf(x) for x in b.property_filters}:
            return f"{path}[{i}].property_filters: compiled {sorted(map(str, a.property_filters))} expected {sorted(map(str, b.property_filters))}"
        if len(a.or_filters) != len(b.or_filters):
            return f"{path}[{i}]: {len(a.or_filters)} parenthesised groups, expected {len(b.or_filters)}"
        for j, (x, y) in enumerate(zip(a.or_filters, b.or_filters)):
            d = diff_or(x, y, f"{path}[{i}].group[{j}]")
            if d:
                return d
    return None


SELECTS = ["note", "file", "prop", "links", "#", "@", "%", "+", "prop:due", "count(note)", "count(#)", "count(prop:who)", "count(file)"]
ORDERS = ["alpha", "create", "modify", "priority", "type", "none"]
GROUPS = ["file", "section", "type", "priority", "none", "@", "#", "%", "+"]


def expect_select(txt):
    from zorg.domain.types import SelectAggregation, SelectPropertyValues, SelectStaticType as S

    base = {"note": S.NOTE, "file": S.FILE, "prop": S.PROPERTY, "links": S.LINKS, "#": S.AREA, "@": S.CONTEXT, "%": S.PERSON, "+": S.PROJECT}
    if txt.startswith("count("):
        return SelectAggregation("count", expect_select(txt[6:-1]))
    if txt.startswith("prop:"):
        return SelectPropertyValues(txt[5:])
    return base[txt]


def round_trip(tier, seed):
    from freezegun import freeze_time
    from zorg.domain.models import Query, WhereOrFilter
    from zorg.domain.types import GroupByType as Gt, OrderByType as Ot
    from zorg.service.compiler import build_zorg_query

    rng = random.Random(seed * 29 + 2)
    n = 300 if tier == "quick" else 5000
    fails, samples, nontriv = [], [], set()
    O = {"alpha": Ot.ALPHA, "create": Ot.CREATE_DATE, "modify": Ot.MODIFY_DATE, "priority": Ot.PRIORITY, "type": Ot.NOTE_TYPE, "none": Ot.NONE}
    Gm = {"file": Gt.FILE, "section": Gt.SECTION, "type": Gt.NOTE_TYPE, "priority": Gt.PRIORITY, "@": Gt.CONTEXT, "#": Gt.AREA, "%": Gt.PERSON, "+": Gt.PROJECT}
    days = [dt.date(2024, 1, 31), dt.date(2024, 3, 31), dt.date(2023, 2, 28), dt.date(2024, 2, 29)]
    for i in range(n):
        today = days[i % len(days)]
        with freeze_time(today.isoformat() + " 12:00:00"):
            spec_of = {}
            of = WhereOrFilter([rand_and(rng, spec_of, today) for _ in range(rng.randint(1, 3))])
            parts, want = [], Query()
            if rng.random() < 0.5:
                st = rng.choice(SELECTS)
                parts.append("S " + st)
                want.select = expect_select(st)
            parts.append("W " + render_or(of, spec_of))
            want.where = of
            og = []
            if rng.random() < 0.5:
                os_ = [rng.choice(ORDERS) for _ in range(rng.randint(1, 3))]
                og.append("O " + " ".join(os_))
                want.order_by = tuple(O[x] for x in os_)
            if rng.random() < 0.5:
                gs = [rng.choice(GROUPS) for _ in range(rng.randint(1, 4))]
                og.append("G " + " ".join(gs))
                want.group_by = tuple(Gm[x] for x in gs if x != "none")
            if rng.random() < 0.5:
                og.reverse()
            text = " ".join(parts + og)
            try:
                got = build_zorg_query(text)
            except Exception as e:
                fails.append({"query": text, "day": today.isoformat(), "error": f"compile raised {type(e).__name__}: {str(e)[:200]}"})
                continue
            d = None
            if got.select != want.select:
                d = f"select {got.select} != {want.select}"
            elif got.order_by != want.order_by:
                d = f"order_by {got.order_by} != {want.order_by}"
            elif got.group_by != want.group_by:
                d = f"group_by {got.group_by} != {want.group_by}"
            elif got.where is None:
                d = "where is None"
            else:
                d = diff_or(got.where, want.where, "where")
            if len(text) > 30:
                nontriv.add(text)
            if d:
                fails.append({"query": text, "day": today.isoformat(), "error": d[:500]})
            if i < 2:
                samples.append({"query": text})
    return {"name": "render_compile_round_trip", "bound": f"{n} random query structures (select forms, filter trees of depth <= 3 with <= 4 atom kinds per group, priority ranges, absolute and relative dates on 4 frozen days incl. month ends, O/G lists in either order) rendered by a spec-side renderer and compiled by build_zorg_query",
            "evaluations": n, "distinct_nontrivial": len(nontriv), "failures": fails, "samples": samples, "replay_fn": "replay_query"}


def replay_query(case):
    from freezegun import freeze_time
    from zorg.service.compiler import build_zorg_query

    with freeze_time(case["day"] + " 12:00:00"):
        try:
            q = build_zorg_query(case["query"])
            return False, f"compiled to {str(q)[:400]}; recorded: {case['error'][:300]}"
        except Exception as e:
            return False, f"raised {e}"


BOUNDED = [round_trip]


def priority_spellings(tier, seed):
    """_add_priorities over the whole (finite) token language P[0-9](-[1-9])?: exhaustive, so it counts as discharged."""
    import time

    from engine import extra
    from zorg.service.compiler._query_compiler import _add_priorities

    class Ctx:
        def __init__(self, t):
            self.t = t

        def getText(self):
            return self.t

    t0 = time.time()
    bad, n = [], 0
    for a in range(10):
        for tail in [None] + list(range(1, 10)):
            text = f"P{a}" + (f"-{tail}" if tail is not None else "")
            got = set()
            try:
                _add_priorities(Ctx(text), got)
            except Exception as e:
                bad.append((text, f"raised {type(e).__name__}"))
                continue
            want = {f"P{k}" for k in range(a, (tail if tail is not None else a) + 1)}
            n += 1
            if got != want:
                bad.append((text, sorted(got)))
    ob = {"name": "C04/_add_priorities/range", "status": "proved" if not bad else "refuted", "vcs": 100,
          "detail": "Pn-m denotes every priority from n to m inclusive (all 100 spellings of the token language, run on the real function)",
          "why": str(bad[:3]) if bad else "", "model": {"text": bad[0][0]} if bad else None,
          "replay_result": {"reproduced": True, "observed": str(bad[0])} if bad else None}
    return [extra.report("zorg.service.compiler._query_compiler:_add_priorities", [ob], backend="exhaustive-enumeration", wall=time.time() - t0)]


EXTRA = [priority_spellings]
