"""C10 plan: FileManager.add_note / delete_note contracts (bounded-symbolic) + end-to-end moves."""
import random
import re
from pathlib import Path

from checks import c05 as C05
from checks import c11 as C11
from checks.zdirlab import Lab, norm_page

PROPERTY = "C10"
CONTRACTS = ["contracts.c16", "contracts.c12", "contracts.c10"]
LEVEL = "other"
EXPLANATION = (
    "Contract-based: FileManager.delete_note (the removed lines are exactly the note's own lines) and FileManager.add_note "
    "(the note's text replaces one blank line / the last line; every other line is kept, in order) are verified over the "
    "file-system model for files of a bounded number of fully symbolic lines (bounded-symbolic); _to_done_note for all inputs. "
    "End to end (bounded): every note of generated indexed directories is moved to existing pages (with/without sections, "
    "trailing newline, notes) with every marker; source/destination line frames and the recompiled note sets are compared."
)
ASSUMPTIONS = ["A-FS for the contract part", "the index agrees with the files before the move (C05)"]
TRUSTED = ["SQLAlchemy/SQLite, antlr4 (end-to-end part runs the real stack)", "z3 5.1 / cvc5 1.0.3", "pyvc symbolic interpreter (engine/)"]


def _notes_of(lab):
    return {d["zid"]: norm_page(d, lab.zdir) for d in lab.compiled_notes() if d["zid"]}


def check_move(pages: dict, pick, dest: str, marker):
    """None | error; returns (err, info)"""
    from zorg.service.note_utils import move_note

    with Lab() as lab:
        for rel, t in pages.items():
            lab.write(rel, t)
        lab.create()
        lab.write("done.zot", TEMPLATE)
        before_files = lab.files()
        before = _notes_of(lab)
        if dest not in before_files and TEMPLATE_RE.match(dest):
            # absent destination that matches a template pattern: it is created from the template first
            before_files = dict(before_files)
            before_files[dest] = "# Done log " + TEMPLATE_RE.match(dest).group("name") + "\n\n"
        if not before:
            return None, "no notes"
        zid = pick if isinstance(pick, str) else sorted(before)[pick % len(before)]
        src = before[zid]["page"]
        if dest == src:
            return None, "same page"
        n_lines = before[zid]["body"].count("\n") + 1
        src_lines = before_files[src].split("\n")
        start = before[zid]["line"] - 1
        with __import__("checks.zdirlab", fromlist=["_quiet"])._quiet():
            rc = move_note(lab.zdir, lab.db_url, TEMPLATE_MAP, zid=zid, new_page=Path(dest), note_type=marker)
        after_files = lab.files()
        info = {"zid": zid, "src": src, "dest": dest, "marker": marker, "rc": rc}
        if rc != 0:
            if after_files != before_files:
                return "move failed (exit 1) but files changed", info
            return None, info
        want_src = src_lines[:start] + src_lines[start + n_lines:]
        if after_files[src].split("\n") != want_src:
            return f"source page {src}: expected exactly lines {start+1}..{start+n_lines} (the note's own) removed", info
        old_d = before_files[dest].split("\n")
        new_d = after_files[dest].split("\n")
        # the note's lines appear once, contiguous; all other lines of the destination are kept in order (at most one blank line replaced)
        added = len(new_d) - len(old_d)
        k = next((i for i in range(min(len(old_d), len(new_d))) if old_d[i] != new_d[i]), min(len(old_d), len(new_d)))
        block = new_d[k:k + added + 1]
        rest_ok = new_d[:k] == old_d[:k] and new_d[k + added + 1:] == old_d[k + 1:]
        if not rest_ok or (k < len(old_d) and old_d[k].strip() != ""):
            return f"destination {dest}: lines other than the inserted note changed (or a non-blank line was overwritten at line {k+1}: {old_d[k] if k < len(old_d) else ''!r})", info
        for rel in after_files:
            if rel not in (src, dest) and after_files[rel] != before_files[rel]:
                return f"unrelated page {rel} changed", info
        try:
            after = _notes_of(lab)
        except Exception as e:
            return f"recompiling after the move raised {type(e).__name__}: {str(e)[:200]}", info
        if set(after) != set(before):
            return f"note set changed: lost {sorted(set(before) - set(after))[:3]} gained {sorted(set(after) - set(before))[:3]}", info
        a, b = before[zid], after[zid]
        if b["page"] != dest:
            return f"moved note compiles in {b['page']}, expected {dest}", info
        want_kind = {"x": "CLOSED_TODO", "~": "CANCELED_TODO", None: a["kind"]}[marker]
        if b["kind"] != want_kind:
            return f"moved note kind {b['kind']}, expected {want_kind}", info
        for t in ("areas", "contexts", "people", "projects"):
            if not set(a["tags"][t]) <= set(b["tags"][t]):
                return f"moved note lost {t} {sorted(set(a['tags'][t]) - set(b['tags'][t]))}", info
        if not set(a["props"].items()) <= set(b["props"].items()):
            return f"moved note lost properties {sorted(set(a['props'].items()) - set(b['props'].items()))[:3]}", info
        if a["body"].split("\n")[1:] != b["body"].split("\n")[1:]:
            return "moved note lost or changed its continuation lines / bullets", info
        for z in before:
            if z != zid and (before[z]["body"], before[z]["kind"], before[z]["page"]) != (after[z]["body"], after[z]["kind"], after[z]["page"]):
                return f"another note ({z}) changed", info
    return None, info


def is_f11(case) -> bool:
    """Known finding F11: the ZID of the moved note is mentioned, surrounded by spaces, on an earlier line of its source
    page; delete_note removes the first line containing ' ZID ' instead of the note's own line."""
    info = case.get("info") or {}
    zid, src = info.get("zid"), info.get("src")
    if not zid or src not in case.get("pages", {}):
        return False
    lines = case["pages"][src].split("\n")
    own = next((i for i, ln in enumerate(lines) if re.match(r"^(-|[ox~<>])( P[0-9])? ([0-9]{6} )?" + re.escape(zid) + "( |$)", ln)), None)
    return own is not None and any(f" {zid} " in ln for ln in lines[:own])


import re as _re

TEMPLATE = "# template header (dropped)\n\n## Done log {{ name }}\n\n\n"  # like the repo's own templates: two blank lines at the end (jinja drops one newline)
TEMPLATE_RE = _re.compile(r"^tmpl_(?P<name>[a-z]+)\.zo$")
TEMPLATE_MAP = {TEMPLATE_RE: Path("done.zot")}
DESTS = {
    "tmpl_old.zo": "# Done log old\n\n- 200101#t1 moved here earlier\nx 200101#t2 and this one\n\n",
    "notes.zo": "# Dest\n\n- 200101#d1 existing note\no P1 200101#d2 existing todo\n\n",
    "sections.zo": "# Dest2 +dp\n\n- 200101#d3 top\n\n################################ Sec one\n- 200101#d4 in section\n\n",
    "nonl.zo": "# Dest3\n\n- 200101#d5 last item, no blank line after it\n",
    "empty.zo": "# Dest4\n\n",
    "stub2.zo": "# Dest5 first header line\n# second header line @ctx\n\n",
}
MENTION = {"mention.zo": "# Mentions\n\n- 240105#m1 see 240105#m2 please\n- 240105#m2 the target note\n  * with a bullet\no P2 240105#m3 unrelated\n\n",
           # mentions that are NOT the note's own line and are not space-delimited: punctuation after the ZID, and a longer ZID with the same prefix
           # inherited tags (title) that are proper prefixes of tags the note carries itself
           "inherit.zo": "# Inherit +work @pc #area\n\n- 240107#i1 prepare the +workshop on the @pcb for #area51\no P2 240107#i2 plain inheriting todo\n\n",
           "mention2.zo": "# Mentions2\n\n- 240106#p1 see 240106#p2. and (240106#p2)\n- 240106#q00 has a longer ZID\n- 240106#p2 punctuated target\no 240106#q0 prefix target\n\n"}


def moves(tier, seed):
    rng = random.Random(seed * 53 + 11)
    n = 8 if tier == "quick" else 80
    fails, samples, evals, nontriv = [], [], 0, 0
    for i in range(n):
        pages = C05._gen_dir(rng)
        pages = {k: re.sub(r"^(-|[ox~<>])( P[0-9])?  +", lambda m: m.group(0).rstrip() + " ", v, flags=re.M) for k, v in pages.items()}
        pages.update(DESTS)
        pages.update(MENTION)
        for j in range(4 if tier == "quick" else 8):
            pick, dest, marker = rng.randrange(1000), rng.choice(list(DESTS) + ["missing.zo", "tmpl_fresh.zo", "tmpl_old.zo"]), rng.choice([None, "x", "~"])
            try:
                err, info = check_move(pages, pick, dest, marker)
            except Exception as e:
                err, info = f"harness: move raised {type(e).__name__}: {str(e)[:200]}", {"pick": pick, "dest": dest, "marker": marker}
            evals += 1
            nontriv += isinstance(info, dict) and info.get("rc") == 0
            if err:
                fails.append({"pages": pages, "pick": pick, "dest": dest, "marker": marker, "error": err, "info": info})
            if len(samples) < 2 and isinstance(info, dict):
                samples.append(info)
    # directed moves (always run): mentioned / punctuated / prefix-colliding ZIDs, templated destinations
    pages = dict(DESTS)
    pages.update(MENTION)
    for zid in ("240105#m2", "240106#p2", "240106#q0", "200101#d1", "240105#m3", "240107#i1", "240107#i2"):
        for dest, marker in (("tmpl_old.zo", None), ("tmpl_fresh.zo", "x"), ("notes.zo", "~"), ("empty.zo", None), ("stub2.zo", None)):
            try:
                err, info = check_move(pages, zid, dest, marker)
            except Exception as e:
                err, info = f"harness: move raised {type(e).__name__}: {str(e)[:200]}", {"zid": zid, "dest": dest, "marker": marker}
            evals += 1
            nontriv += isinstance(info, dict) and info.get("rc") == 0
            if err:
                fails.append({"pages": pages, "pick": zid, "dest": dest, "marker": marker, "error": err, "info": info})
    return {"name": "moves", "bound": f"{n} generated indexed directories x {4 if tier == 'quick' else 8} moves (random note, destination in {{with notes, with sections, no blank line at the end, header only, missing}}, marker in {{none, x, ~}})",
            "evaluations": evals, "distinct_nontrivial": nontriv, "failures": fails, "samples": samples, "replay_fn": "replay_move"}


def replay_move(case):
    err, info = check_move(case["pages"], case["pick"], case["dest"], case["marker"])
    return err is None, err or "ok"


BOUNDED = [moves]
