"""C16 plan: init_from_template contract over the file-system model + end-to-end configurations (bounded)."""
import datetime as dt
import random
import re
import shutil
import tempfile
from pathlib import Path

PROPERTY = "C16"
CONTRACTS = ["contracts.c16"]
LEVEL = "other"
EXPLANATION = (
    "Contract-based: init_from_template is verified over the file-system model (A-FS) with path helpers and jinja rendering "
    "as assumed contracts: an existing target is left untouched unless overwriting is requested (no write at all), otherwise "
    "the first matching pattern in map order wins and its captures extend the variable map, nothing is written when nothing "
    "matches and no template is given, and the written text is the rendering of the chosen template; idempotence follows as a "
    "lemma. End to end (bounded): generated pattern maps (overlaps, named groups, date-like captures), targets and variable maps "
    "through the real function and jinja2, compared with an independent rendering."
)
ASSUMPTIONS = ["A-FS", "A-JINJA: rendering is a function of template text and variables (templates that read the clock excluded)"]
TRUSTED = ["jinja2", "re", "the file system", "z3 5.1 / cvc5 1.0.3", "pyvc symbolic interpreter (engine/)"]

TEMPLATES = {
    "day.zot": "# day template\n# vars: date\n\n## Day {{ date.strftime('%Y-%m-%d') }}\n##\n## ^ = [[{{ date.strftime('%Y') }}]]\n\n\n",
    "proj.zot": "# project template\n\n## Project {{ name }} ({{ owner | default('nobody') }})\n\n- first note of {{ name }}\n\n",
    "plain.zot": "# plain\n\n## Plain page\n\n\n",
}


def expected_render(tname: str, variables: dict) -> str:
    """independent rendering: drop the template header (up to the first blank line), '## ' -> '# ', then jinja2"""
    import jinja2

    lines = TEMPLATES[tname].split("\n")
    k = next(i for i, ln in enumerate(lines) if not ln.strip())
    body = []
    for ln in lines[k + 1:]:
        body.append(ln[1:] if (ln.startswith("## ") or ln.strip() == "##") else ln)
    vs = {}
    for key, v in variables.items():
        vs[key] = dt.datetime.strptime(v, "%Y%m%d") if isinstance(v, str) and re.match(r"^[0-9]{4}[01][0-9][0-3][0-9]$", v) else v
    return jinja2.Environment().from_string("\n".join(body)).render({**vs, "dt": dt})


PATTERNS = [
    (r"^(?P<year>[0-9]{4})/(?P<date>[0-9]{8})\.zo$", "day.zot"),
    (r"^[0-9]{4}/.*\.zo$", "plain.zot"),
    (r"^prj/(?P<name>[a-z]+)\.zo$", "proj.zot"),
    (r"^prj/.*$", "plain.zot"),
    (r".*_plain\.zo$", "plain.zot"),
    (r"journal/(?P<date>[0-9]{8})\.zo$", "day.zot"),     # not anchored at the start: must match from the beginning of the relative path
    (r"prj", "plain.zot"),
]
TARGETS = ["journal/20240301.zo", "archive/journal/20240301.zo", "old/prj/alpha.zo", "2024/20240229.zo", "2024/notes.zo", "prj/alpha.zo", "prj/Beta.zo", "misc/other.zo", "x_plain.zo", "2023/20231231", "prj/gamma"]


def check_case(pat_idx, target, existing, overwrite, var_map, explicit):
    from zorg.service.templates import init_from_template

    root = Path(tempfile.mkdtemp(prefix="zorgverif-c16-"))
    try:
        zdir = root / "org"
        zdir.mkdir()
        for n, t in TEMPLATES.items():
            (zdir / n).write_text(t)
        pmap = {re.compile(PATTERNS[i][0]): Path(PATTERNS[i][1]) for i in pat_idx}
        rel = target if "." in target else target + ".zo"
        tp = zdir / rel
        if existing is not None:
            tp.parent.mkdir(parents=True, exist_ok=True)
            tp.write_text(existing)
        before = {str(p.relative_to(zdir)): p.read_text() for p in zdir.rglob("*") if p.is_file()}

        def run():
            init_from_template(zdir, pmap, Path(target), template=Path(explicit) if explicit else None, var_map=dict(var_map), should_overwrite_existing=overwrite)

        try:
            run()
        except Exception as e:
            return f"init_from_template raised {type(e).__name__}: {str(e)[:200]}"
        after = {str(p.relative_to(zdir)): p.read_text() for p in zdir.rglob("*") if p.is_file()}
        first = next(((PATTERNS[i][1], re.match(PATTERNS[i][0], rel)) for i in pat_idx if re.match(PATTERNS[i][0], rel)), None)
        want = dict(before)
        if existing is not None and not overwrite:
            pass
        elif first is not None:
            want[rel] = expected_render(first[0], {**var_map, **first[1].groupdict()})
        elif explicit:
            want[rel] = expected_render(explicit, var_map)
        if after != want:
            diff = sorted(k for k in set(after) | set(want) if after.get(k) != want.get(k))
            k = diff[0]
            return f"{k}: got {after.get(k)!r:.160} expected {want.get(k)!r:.160}"
        try:
            run()
        except Exception as e:
            return f"second call raised {type(e).__name__}: {str(e)[:200]}"
        again = {str(p.relative_to(zdir)): p.read_text() for p in zdir.rglob("*") if p.is_file()}
        if again != after:
            return "doing it twice differs from doing it once"
        return None
    finally:
        shutil.rmtree(root, ignore_errors=True)


def same_basename_case(order):
    """two templates with the same file name in different sub-directories, both used in one process, in the given order"""
    from zorg.service.templates import init_from_template

    root = Path(tempfile.mkdtemp(prefix="zorgverif-c16s-"))
    try:
        zdir = root / "org"
        tmpls = {"work/log.zot": "# work log template\n\n## Work log {{ name }}\n\n- work item of {{ name }}\n\n",
                 "home/log.zot": "# home log template\n\n## Home log {{ name }}\n\n- home item of {{ name }}\n\n",
                 "log.zot": "# top log template\n\n## Top log {{ name }}\n\n\n"}
        for n, t in tmpls.items():
            (zdir / n).parent.mkdir(parents=True, exist_ok=True)
            (zdir / n).write_text(t)
        pats = [(r"^work/(?P<name>[a-z]+)\.zo$", "work/log.zot"), (r"^home/(?P<name>[a-z]+)\.zo$", "home/log.zot"), (r"^(?P<name>top[a-z]*)\.zo$", "log.zot")]
        pmap = {re.compile(p): Path(t) for p, t in pats}
        targets = {"work": "work/alpha.zo", "home": "home/beta.zo", "top": "topic.zo"}
        for which in order:
            rel = targets[which]
            try:
                init_from_template(zdir, pmap, Path(rel), template=None, var_map={}, should_overwrite_existing=False)
            except Exception as e:
                return f"init_from_template raised {type(e).__name__}: {str(e)[:200]}"
            tname, m = next((t, re.match(p, rel)) for p, t in pats if re.match(p, rel))
            lines = tmpls[tname].split("\n")
            k = next(i for i, ln in enumerate(lines) if not ln.strip())
            body = "\n".join(ln[1:] if ln.startswith("## ") else ln for ln in lines[k + 1:])
            import jinja2

            want = jinja2.Environment().from_string(body).render(m.groupdict())
            got = (zdir / rel).read_text() if (zdir / rel).exists() else None
            if got != want:
                return f"{rel} (templates used in the order {order}): got {got!r:.120} expected the rendering of {tname}: {want!r:.120}"
        return None
    finally:
        shutil.rmtree(root, ignore_errors=True)


def configurations(tier, seed):
    rng = random.Random(seed * 19 + 4)
    n = 150 if tier == "quick" else 3000
    fails, samples, nontriv = [], [], 0
    for i in range(n):
        pat_idx = rng.sample(range(len(PATTERNS)), rng.randint(0, 4))
        target = rng.choice(TARGETS)
        existing = rng.choice([None, None, "# mine\n\n- 240101#AA my own text\n", ""])
        overwrite = rng.random() < 0.25
        var_map = rng.choice([{}, {"owner": "bob"}, {"name": "fromvars", "owner": "al"}, {"date": "20200101"}])
        explicit = rng.choice([None, None, "plain.zot", "proj.zot"])
        if explicit == "proj.zot" and "name" not in var_map:
            var_map = {**var_map, "name": "explicit"}
        case = {"pat_idx": pat_idx, "target": target, "existing": existing, "overwrite": overwrite, "var_map": var_map, "explicit": explicit}
        err = check_case(**case)
        nontriv += bool(pat_idx)
        if err:
            fails.append({**case, "error": err})
        if i < 2:
            samples.append(case)
    import itertools as _it

    for order in _it.permutations(["work", "home", "top"]):
        err = same_basename_case(list(order))
        n += 1
        if err:
            fails.append({"pat_idx": [], "target": "same-basename templates " + "/".join(order), "existing": None, "overwrite": False, "var_map": {}, "explicit": None, "error": err, "order": list(order)})
    return {"name": "configurations", "bound": f"{n} random (pattern map of 0-4 of 7 overlapping patterns (two of them not anchored) in random order, 11 targets incl. sub-directories and extension-less names, existing / empty / missing target, overwrite flag, 4 variable maps, explicit template or none)",
            "evaluations": n, "distinct_nontrivial": nontriv, "failures": fails, "samples": samples, "replay_fn": "replay_case"}


def replay_case(case):
    if case.get("order"):
        err = same_basename_case(case["order"])
        return err is None, err or "ok"
    c = {k: case[k] for k in ("pat_idx", "target", "existing", "overwrite", "var_map", "explicit")}
    err = check_case(**c)
    return err is None, err or "ok"


BOUNDED = [configurations]
