"""C01 plan: Level-1 listener contracts + token-shape lemmas + end-to-end pages."""
import time

from checks import e2e_pages
from checks import l2walk
from engine import extra, lexatn

PROPERTY = "C01"
CONTRACTS = ["contracts.c01"]
LEVEL = "other"
EXPLANATION = (
    "Level 1 (deductive, all inputs): every listener method of ZorgFileCompiler that decides a note's kind, priority, body, "
    "line, ZID and dates is verified against a transition contract over the compiler state, with 'nothing else changed' "
    "as frame obligations (VCs generated from the real AST of _file_compiler.py, z3/cvc5). Token-shape preconditions "
    "(ZID, DATE, PRIORITY, todo prefix) are checked against the generated lexer's ATN by automata. "
    "Level 2 (deductive, all parse trees): the walk of the listener over every derivation of ZorgFileParser.atn is verified over a predicate abstraction of the compiler state (engine/l2.py): each listener method is replaced by its Level-1 contract (one symbolic summary per method, abstract transformers by all-SAT), reachability over the ATN with rule summaries is the inductive invariant, and the walk obligations hold on it: the scope flags encode the syntactic region at every word (G1), a section's stores are empty when it is entered and reset when it is left (G3), parent sections are open (G6), the todo registers hold their defaults at every item (G5), note registers are reset and a block is open at every note, everything is closed at the end, and every precondition of a listener method holds at every call of the walk. "
    "What the abstraction does not carry (the order of notes inside a block as a sequence, bodies and line numbers along "
    "the walk) is tied to the statement by the bounded end-to-end check (abstract pages rendered and compiled through "
    "walk_zorg_page, oracle written from the statement). The bullet-property scan of _add_note is outside the VC generator "
    "(its contract is proved for bodies without ':: ' markers) and is covered by the same bounded check."
)
ASSUMPTIONS = l2walk.ASSUMPTIONS + [
    "A-ANTLR-TREE: the parse tree is a derivation in the parser's ATN; ParseTreeWalker calls enter/exit in document order; getText() is the concatenation of leaf texts; start.line is the 1-based line of the first token",
    "A-ASCII: page text is ASCII (antlr FileStream(errors='ignore') drops the rest)",
    "datetime.strptime raises ValueError iff the text is not a calendar date in the format (uninterpreted valid/parse functions)",
    "_ZorgFileCompilerState._get_current_tags is used through an assumed contract (sorted set of the six scopes); exercised by the bounded tier",
]
TRUSTED = ["antlr4 runtime", "z3 5.1 / cvc5 1.0.3", "pyvc symbolic interpreter (engine/)"]


def token_shapes(tier, seed):
    """The regular expressions used as token-shape preconditions equal the languages of the lexer rules."""
    t0 = time.time()
    from contracts import c01
    from engine.regex import to_z3  # noqa: F401  (same syntax as the contract clauses)

    L = lexatn.LexerATN("zorg.grammar.zorg_file.ZorgFileLexer", "ZorgFileLexer")
    obs = []
    for rule, pattern in [("ZID", c01.ZID_RE), ("DATE", c01.DATE_RE), ("PRIORITY", "P[0-9]"), ("LOWER_O", "o"), ("LOWER_X", "x"), ("TILDE", "~"), ("LANGLE", "<"), ("RANGLE", ">")]:
        nfa = L.rule_nfa(L.rule_names.index(rule))
        mine = lexatn.regex_nfa(pattern)
        w1, _ = lexatn.not_subset_witness(nfa, mine)
        w2, _ = lexatn.not_subset_witness(mine, nfa)
        ok = w1 is None and w2 is None
        obs.append({"name": f"C01/lex/{rule}-shape", "status": "proved" if ok else "refuted", "detail": f"L({rule}) == L({pattern})",
                    "why": "" if ok else f"differ on {w1 if w1 is not None else w2!r}", "model": {"text": w1 if w1 is not None else w2}})
    return [extra.report("lexer:ZorgFileLexer(token shapes)", obs, backend="automata", wall=time.time() - t0, models=["A-ANTLR-LEX"])]


def pages(tier, seed):
    return e2e_pages.run_random(tier, seed, n_quick=250, n_thorough=5000)


replay_page = e2e_pages.replay_page
EXTRA = [token_shapes, l2walk.l2_file_walk]
BOUNDED = [pages]
