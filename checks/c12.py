"""C12 plan: Note.to_string contract + emitted text recompiled (bounded)."""
import random
import shutil
import tempfile
from pathlib import Path

from checks import e2e_pages as E
from checks import pagegen as G
from checks.zdirlab import Lab, norm_page

PROPERTY = "C12"
CONTRACTS = ["contracts.c12"]
LEVEL = "other"
EXPLANATION = (
    "Contract-based (all inputs): Note.to_string emits the kind character, the priority only for todos that are neither done nor "
    "cancelled, the stripped body and a newline. That this text compiles back to the same note depends on the grammar walk and "
    "is covered by the bounded tier: notes compiled from generated pages are emitted with to_string(), placed under a page header "
    "and recompiled (kind, ZID, body, own metadata, dates for notes with a ZID, priority of open todos); ungrouped query results "
    "under a header are recompiled as a page."
)
ASSUMPTIONS = ["A-ANTLR-TREE", "A-ASCII"]
TRUSTED = ["antlr4", "z3 5.1 / cvc5 1.0.3", "pyvc symbolic interpreter (engine/)"]


def own_of(text_item: str, zdir: Path):
    """the note an item compiles to on its own (no inherited metadata)"""
    pg = E.compile_text("# own\n\n" + text_item + "\n", zdir, "own.zo")
    ns = pg.notes
    return (G.observed(ns[0]) if len(ns) == 1 and not pg.has_errors else None), pg


def round_trips(tier, seed):
    rng = random.Random(seed * 41 + 8)
    n = 60 if tier == "quick" else 1200
    zdir = Path(tempfile.mkdtemp(prefix="zorgverif-c12-"))
    fails, samples, nontriv, evals = [], [], 0, 0
    try:
        for i in range(n):
            text, exp = G.render(G.rand_page(rng))
            pg = E.compile_text(text, zdir)
            notes = pg.notes
            if not notes:
                continue
            emitted = [nt.to_string() for nt in notes]
            page = "# Emitted notes\n\n" + "".join(emitted) + "\n"
            pg2 = E.compile_text(page, zdir, "emitted.zo")
            evals += 1
            if pg2.has_errors or len(pg2.notes) != len(notes):
                fails.append({"page": page, "error": f"emitted items form a page with errors={pg2.has_errors} and {len(pg2.notes)} notes, expected {len(notes)}"})
                continue
            for a, b, item in zip(notes, pg2.notes, emitted):
                oa, ob = G.observed(a), G.observed(b)
                own, _ = own_of(item, zdir)
                nontriv += 1
                err = None
                if oa["kind"] != ob["kind"] or oa["zid"] != ob["zid"] or oa["body"] != ob["body"]:
                    err = f"kind/zid/body changed: {oa['kind'], oa['zid'], oa['body']!r} -> {ob['kind'], ob['zid'], ob['body']!r}"
                elif oa["zid"] and (oa["create"], oa["modify"]) != (ob["create"], ob["modify"]):
                    err = f"dates of a note with a ZID changed: {oa['create'], oa['modify']} -> {ob['create'], ob['modify']}"
                elif oa["kind"] not in ("BASIC", "CLOSED_TODO", "CANCELED_TODO") and oa["priority"] != ob["priority"]:
                    err = f"priority changed: {oa['priority']} -> {ob['priority']}"
                elif own is None:
                    err = "the emitted item alone is not a valid page item"
                elif (own["tags"], own["links"], own["props"]) != ({k: v for k, v in ob["tags"].items()}, ob["links"], ob["props"]):
                    err = f"own metadata differs: {own['tags'], own['links'], own['props']} vs recompiled {ob['tags'], ob['links'], ob['props']}"
                if err:
                    fails.append({"page": page, "item": item, "error": err})
                    break
            if i < 2:
                samples.append({"emitted": emitted[:3]})
    finally:
        shutil.rmtree(zdir, ignore_errors=True)
    return {"name": "to_string_round_trip", "bound": f"{n} generated pages: every compiled note emitted with to_string(), assembled under a header and recompiled", "evaluations": evals,
            "distinct_nontrivial": nontriv, "failures": fails, "samples": samples, "replay_fn": "replay_page"}


def selections(tier, seed):
    """an ungrouped rendered selection under a page header is a valid page whose notes are the selected notes"""
    from checks import c05 as C05
    from zorg.service.swog import execute

    rng = random.Random(seed * 43 + 9)
    n = 6 if tier == "quick" else 60
    fails, samples, evals, nontriv = [], [], 0, 0
    for i in range(n):
        pages = C05._gen_dir(rng)
        # lines that end in blanks, and a continuation line made of blanks only (both are valid items)
        pages["blanks.zo"] = ("# Blanks\n\n- 240512#A1 Headline that ends in blanks   \n  * a bullet that ends in a blank \n  * last bullet\n"
                              "o P2 240512#A2 second item\n   \n  * bullet after a blank-only continuation line\n\n")
        with Lab() as lab:
            for rel, t in pages.items():
                lab.write(rel, t)
            lab.create()
            idx = {d["zid"]: norm_page(d, lab.zdir) for d in lab.index_notes()}
            for order in ("alpha", "none", "create priority", "type modify"):
                out = execute(lab.zdir, lab.db_url, f"S note W - | o | x | ~ | < | > O {order}")
                lab.write("zoq_result.zo", "# Selection\n\n" + out + "\n")
                pg = lab.compile("zoq_result.zo")
                evals += 1
                got = {nt.zid: G.observed(nt) for nt in pg.notes}
                nontriv += len(got) >= 2
                if pg.has_errors:
                    fails.append({"pages": pages, "error": f"the rendered selection (O {order}) is not a valid page"})
                elif set(got) != set(idx):
                    fails.append({"pages": pages, "error": f"O {order}: notes of the rendered page {sorted(set(got) ^ set(idx))[:4]} differ from the selected notes"})
                else:
                    for z, d in got.items():
                        if (d["kind"], d["body"]) != (idx[z]["kind"], idx[z]["body"]):
                            fails.append({"pages": pages, "error": f"O {order}: note {z} recompiles to {d['kind'], d['body']!r}, selected {idx[z]['kind'], idx[z]['body']!r}"})
                            break
                (lab.zdir / "zoq_result.zo").unlink()
        if i < 1:
            samples.append({"pages": sorted(pages)})
    return {"name": "selection_is_a_page", "bound": f"{n} generated indexed directories x 4 orderings: ungrouped `S note` output under a header, recompiled", "evaluations": evals,
            "distinct_nontrivial": nontriv, "failures": fails, "samples": samples, "replay_fn": "replay_page"}


def replay_page(case):
    return False, "recorded: " + case.get("error", "")


BOUNDED = [round_trips, selections]
