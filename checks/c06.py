"""C06 plan: incremental reindexing vs rebuild on generated edit histories (bounded), hash-map contracts."""
import datetime as dt
import random
import re
import shutil

from checks import c05 as C05
from checks import c11 as C11
from checks.zdirlab import Lab, norm_page

PROPERTY = "C06"
CONTRACTS = ["contracts.c06"]
LEVEL = "other"
EXPLANATION = (
    "Contract-based (bounded-symbolic): reindex_database (plain reindex, or `db reindex PAGE` for one page on disk) is verified against an ABSTRACT index - a map from page "
    "name to the content the page was compiled from, maintained by stubs of SQLRepo.remove_file_by_name / add_file and "
    "walk_zorg_page: from every state in which the stored hash map describes the index (the invariant each create / reindex "
    "establishes - create_database is verified to establish it from a fresh index), the index afterwards holds exactly the pages on disk, each with its current content - which is what a fresh "
    "`db create` yields in this view - the stored hash map describes the new index again (the invariant is re-established), no "
    "page is written, and the command refuses (RuntimeError) exactly when a new or changed page has syntax errors "
    "with an explicit page only that page's index entry and stored digest change "
    "(<= 2 pages on disk, <= 2 stored entries, names / contents / digests fully symbolic, empty error whitelist; A-SHA as an "
    "explicit precondition). _get_file_hash_map lists exactly the paths considered with the digests of their current contents. "
    "Not decided deductively: the closure of the invariant under the write-back of ZIDs / stamps, explicit paths that are not on "
    "disk, non-empty error whitelists, and that the real ORM implements the abstract index: generated histories (edit / add / delete / move notes, "
    "continuation-line edits, restoring earlier contents, add / delete / rename pages, header edits, old-mtime edits, reindex with "
    "and without explicit paths, days advancing), scripted histories and wildcard / case page-name pairs are run through the real "
    "handlers and SQLite and compared with a fresh `db create` of the final files (bounded)."
)
ASSUMPTIONS = ["A-FS for the contract part", "abstract index: SQLRepo.add_file / remove_file_by_name / walk_zorg_page / _get_zo_paths_to_index / _get_error_file_whitelist / _check_for_modified_notes / SQLSession.commit are stubs (assumed contracts written as models, listed in trusted_base as STUB ...)", "A-SHA: _hash_file returns a function of the file content (assumed contract); SHA-256 collisions do not occur on the files involved"]
TRUSTED = ["SQLAlchemy/SQLite, antlr4 (end-to-end part runs the real stack)", "z3 5.1 / cvc5 1.0.3", "pyvc symbolic interpreter (engine/)"]


def _dump(lab):
    out = []
    for d in lab.index_notes():
        d = norm_page(d, lab.zdir)
        out.append({k: d[k] for k in ("page", "line", "zid", "kind", "priority", "body", "create", "modify", "tags", "links", "props")})
    return sorted(out, key=lambda d: (d["page"], d["line"], d["zid"] or ""))


def run_history(pages, rng, nsteps):
    from freezegun import freeze_time

    day = dt.date(2024, 4, 1)
    ops = []
    history: list = []  # (page, content) pairs seen so far
    with Lab() as lab:
        for rel, t in pages.items():
            lab.write(rel, t)
        with freeze_time(day.isoformat() + " 09:00:00"):
            lab.create()
        for step in range(nsteps):
            if rng.random() < 0.5:
                day += dt.timedelta(days=1)
            with freeze_time(day.isoformat() + " 09:00:00"):
                files = lab.files()
                names = sorted(files)
                history.extend((k, v) for k, v in files.items() if (k, v) not in history)
                r = rng.random()
                if r < 0.3 and names:
                    rel = rng.choice(names)
                    lines = files[rel].split("\n")
                    idx = C11._note_lines(files[rel])
                    if idx:
                        i = rng.choice(idx)
                        lines[i] += " changed"
                        lab.write(rel, "\n".join(lines)); ops.append(("edit", rel, i))
                elif r < 0.38 and names:
                    # content replaced while the modification time stays old (cp -p, rsync -t, restore from backup)
                    import os

                    rel = rng.choice(names)
                    lines = files[rel].split("\n")
                    idx = C11._note_lines(files[rel])
                    if idx:
                        i = rng.choice(idx)
                        lines[i] += " restored"
                        lab.write(rel, "\n".join(lines))
                        old_t = (lab.zdir / rel).stat().st_mtime - 7 * 86400
                        os.utime(lab.zdir / rel, (old_t, old_t)); ops.append(("edit-old-mtime", rel, i))
                elif r < 0.42 and names:
                    # edit inside a continuation line (bullets) of a multi-line note
                    rel = rng.choice(names)
                    lines = files[rel].split("\n")
                    idx = [i for i, ln in enumerate(lines) if ln.startswith("  ") and ln.strip()]
                    if idx:
                        i = rng.choice(idx)
                        lines[i] += " more"
                        lab.write(rel, "\n".join(lines)); ops.append(("edit-continuation", rel, i))
                elif r < 0.45 and history:
                    # a page gets back a content it had earlier (undo, git checkout)
                    rel, text = rng.choice(history)
                    if (lab.zdir / rel).exists():
                        lab.write(rel, text); ops.append(("restore-earlier-content", rel))
                elif r < 0.50 and names:
                    rel = rng.choice(names)
                    lab.write(rel, files[rel].rstrip("\n") + "\n\n- brand new note +fresh\n"); ops.append(("add-note", rel))
                elif r < 0.55 and names:
                    rel = rng.choice(names)
                    lines = files[rel].split("\n")
                    idx = [i for i in C11._note_lines(files[rel]) if i + 1 >= len(lines) or not lines[i + 1].startswith(" ")]
                    if idx:
                        i = rng.choice(idx)
                        del lines[i]
                        lab.write(rel, "\n".join(lines)); ops.append(("delete-note", rel, i))
                elif r < 0.65 and len(names) >= 2:
                    a, b = rng.sample(names, 2)
                    la = files[a].split("\n")
                    idx = [i for i in C11._note_lines(files[a]) if i + 1 >= len(la) or not la[i + 1].startswith(" ")]
                    if idx:
                        i = rng.choice(idx)
                        ln = la.pop(i)
                        lab.write(a, "\n".join(la))
                        lab.write(b, files[b].rstrip("\n") + "\n\n" + ln + "\n"); ops.append(("move-note", a, b))
                elif r < 0.72:
                    nm = f"new{step}.zo"
                    lab.write(nm, f"# New page {step} +np\n\n- first note of page {step}\no P2 second @ctx\n"); ops.append(("add-page", nm))
                elif r < 0.78 and len(names) >= 2:
                    rel = rng.choice(names)
                    (lab.zdir / rel).unlink(); ops.append(("delete-page", rel))
                elif r < 0.84 and names:
                    rel = rng.choice(names)
                    new = rel.replace(".zo", "_r.zo")
                    (lab.zdir / rel).rename(lab.zdir / new); ops.append(("rename-page", rel, new))
                elif r < 0.92 and names:
                    rel = rng.choice(names)
                    lines = files[rel].split("\n")
                    lines[0] += " #retag"
                    lab.write(rel, "\n".join(lines)); ops.append(("header", rel))
                try:
                    k = rng.random()
                    if k < 0.35:
                        lab.reindex(); ops.append(("reindex",))
                    elif k < 0.55 and lab.files():
                        p = rng.choice(sorted(lab.files()))
                        lab.reindex([p]); ops.append(("reindex-paths", p))
                except Exception as e:
                    return f"reindex raised {type(e).__name__}: {str(e)[:200]}", ops
        with freeze_time(day.isoformat() + " 18:00:00"):
            try:
                lab.reindex(); ops.append(("final-reindex",))
                lab.reindex()
            except Exception as e:
                return f"final reindex raised {type(e).__name__}: {str(e)[:200]}", ops
            try:
                got = _dump(lab)
            except Exception as e:
                return f"reading the index after the history raised {type(e).__name__}: {str(e)[:200]} (a rebuilt index of the same files is read without error)", ops
            final_files = lab.files()
            with Lab() as fresh:
                for rel, t in final_files.items():
                    fresh.write(rel, t)
                shutil.copy(lab.zdir / ".zorg" / "next_ids.json", fresh.zdir / "next_ids.tmp") if (lab.zdir / ".zorg" / "next_ids.json").exists() else None
                try:
                    fresh.create()
                except Exception as e:
                    return f"fresh db create of the final files raised {type(e).__name__}: {str(e)[:200]}", ops
                if fresh.files() != final_files:
                    return None, ops  # the final files still lacked ZIDs / spacing quirks: outside this comparison (C05)
                want = _dump(fresh)
        if got != want:
            gz = {(d["page"], d["zid"]) for d in got}
            wz = {(d["page"], d["zid"]) for d in want}
            if gz != wz:
                return f"index after history has notes {sorted(gz - wz)[:3]} that a rebuild lacks / lacks {sorted(wz - gz)[:3]}", ops
            for a, b in zip(got, want):
                if a != b:
                    k = [x for x in a if a[x] != b[x]][0]
                    return f"{a['page']}:{a['line']} {k}: after history {a[k]!r} != rebuild {b[k]!r}", ops
    return None, ops


def _directed(pages, edited):
    from freezegun import freeze_time

    with Lab() as lab:
        for rel, t in pages.items():
            lab.write(rel, t)
        with freeze_time("2024-04-01 09:00:00"):
            lab.create()
        with freeze_time("2024-04-02 09:00:00"):
            lab.write(edited, lab.read(edited).replace("second page", "second page, edited"))
            try:
                lab.reindex()
                lab.reindex()
            except Exception as e:
                return f"reindex raised {type(e).__name__}: {str(e)[:200]}"
            try:
                got = _dump(lab)
            except Exception as e:
                return f"reading the index after editing {edited} raised {type(e).__name__}: {str(e)[:200]}"
            final = lab.files()
            with Lab() as fresh:
                for rel, t in final.items():
                    fresh.write(rel, t)
                fresh.create()
                want = _dump(fresh)
        if got != want:
            return f"index after editing {edited}: {[(d['page'], d['zid']) for d in got]} != rebuild {[(d['page'], d['zid']) for d in want]}"
    return None


def run_script(pages, steps):
    """A scripted history through the real handlers, then a plain reindex; the index must equal a rebuild of the final files.
    steps: ("day", "2024-04-02") | ("write", page, text) | ("sub", page, old, new) | ("reindex",) | ("reindex", [pages])"""
    from freezegun import freeze_time

    day = "2024-04-01"
    with Lab() as lab:
        for rel, t in pages.items():
            lab.write(rel, t)
        with freeze_time(day + " 09:00:00"):
            lab.create()
        try:
            for st in steps:
                if st[0] == "day":
                    day = st[1]
                    continue
                with freeze_time(day + " 09:00:00"):
                    if st[0] == "write":
                        lab.write(st[1], st[2])
                    elif st[0] == "sub":
                        t = lab.read(st[1])
                        assert st[2] in t, (st, t)
                        lab.write(st[1], t.replace(st[2], st[3]))
                    elif st[0] == "reindex":
                        lab.reindex(st[1] if len(st) > 1 else None)
            with freeze_time(day + " 18:00:00"):
                lab.reindex()
                lab.reindex()
        except AssertionError:
            raise
        except Exception as e:
            return f"reindex raised {type(e).__name__}: {str(e)[:200]}"
        with freeze_time(day + " 18:00:00"):
            try:
                got = _dump(lab)
            except Exception as e:
                return f"reading the index after the history raised {type(e).__name__}: {str(e)[:200]}"
            final = lab.files()
            with Lab() as fresh:
                for rel, t in final.items():
                    fresh.write(rel, t)
                fresh.create()
                if fresh.files() != final:
                    return None
                want = _dump(fresh)
        if got != want:
            for a, b in zip(got, want):
                if a != b:
                    k = [k for k in a if a[k] != b[k]][0]
                    return f"{a['page']}:{a['line']} {k}: index after the history {a[k]!r} != rebuild {b[k]!r}"
            return f"index after the history has {len(got)} notes, a rebuild {len(want)}"
    return None


_ML = "# Multi\n\n- 240301#m1 shopping list +home\n  * milk\n  * eggs  and  bread\no P2 240301#m2 plain todo @ctx\n- 240301 240301#m3 explicit modify date equal to the create date\n\n"
SCRIPTS = [
    ("restore-after-explicit-path-reindex", {"r.zo": "# R\n\n- 240301#r1 first +keep\n- 240301#r2 second @home\n- 240301#r3 third\n\n"},
     [("sub", "r.zo", "- 240301#r2 second @home\n", ""), ("reindex", ["r.zo"]), ("write", "r.zo", "# R\n\n- 240301#r1 first +keep\n- 240301#r2 second @home\n- 240301#r3 third\n\n")]),
    ("restore-after-plain-reindex", {"r.zo": "# R\n\n- 240301#r1 first +keep\n- 240301#r2 second @home\n\n"},
     [("sub", "r.zo", "- 240301#r2 second @home\n", ""), ("reindex",), ("write", "r.zo", "# R\n\n- 240301#r1 first +keep\n- 240301#r2 second @home\n\n")]),
    ("multi-line-note-edited-on-two-later-days", {"m.zo": _ML},
     [("day", "2024-04-02"), ("sub", "m.zo", "* milk", "* oat milk"), ("reindex",), ("day", "2024-04-04"), ("sub", "m.zo", "* oat milk", "* soy milk"), ("reindex",)]),
    ("first-line-edited-on-two-later-days-explicit-path", {"m.zo": _ML},
     [("day", "2024-04-02"), ("sub", "m.zo", "shopping list", "shopping  list v2"), ("reindex", ["m.zo"]), ("day", "2024-04-03"), ("sub", "m.zo", "list v2", "list v3"),
      ("sub", "m.zo", "plain todo", "plain todo edited"), ("sub", "m.zo", "equal to the create date", "equal to the create date, edited"), ("reindex", ["m.zo"])]),
    ("modify-date-word-removed-while-editing", {"m.zo": _ML},
     [("day", "2024-04-02"), ("sub", "m.zo", "plain todo", "plain todo edited"), ("reindex",), ("day", "2024-04-05"), ("sub", "m.zo", "o P2 240402 240301#m2 plain todo edited", "o P2 240301#m2 plain todo edited twice"), ("reindex",)]),
]


def is_f9(case) -> bool:
    """Known finding F9: the history deletes or renames a page; its notes survive every later reindex."""
    return any(o[0] in ("delete-page", "rename-page") for o in case.get("ops", [])) and "that a rebuild lacks" in case.get("error", "")


def histories(tier, seed):
    rng = random.Random(seed * 101 + 7)
    n = 10 if tier == "quick" else 150
    fails, samples, nontriv = [], [], 0
    for i in range(n):
        pages = C05._gen_dir(rng)
        pages = {k: re.sub(r"^(-|[ox~<>])( P[0-9])?  +", lambda m: m.group(0).rstrip() + " ", v, flags=re.M) for k, v in pages.items()}
        # no ZID-less note with a leading modify date: that is C05's known finding F17, not a reindex question
        pages = {k: re.sub(r"^((?:-|[ox~<>])(?: P[0-9])? )[0-9]{6} (?![0-9]{6}#)", r"\1", v, flags=re.M) for k, v in pages.items()}
        sub = random.Random(rng.random())
        err, ops = run_history(pages, sub, 5 if tier == "quick" else 9)
        nontriv += len(ops) >= 3
        if err:
            fails.append({"pages": pages, "error": err, "ops": [list(o) for o in ops]})
        if i == 0:
            samples.append({"ops": [list(o) for o in ops]})
    # directed histories (always run): pages whose names differ only at a LIKE wildcard position / in letter case; the later
    # indexed one is edited and reindexed
    for pair in (("e-f.zo", "e_f.zo"), ("A.zo", "a.zo"), ("sub/cXd.zo", "sub/c_d.zo")):
        pages = {pair[0]: "# First\n\n- 240301#p1 note in the first page\no P1 240301#p2 todo in the first page\n\n",
                 pair[1]: "# Second\n\n- 240301#p3 note in the second page\n\n"}

        class Script(random.Random):
            """edit a note of the second page, then plain reindex, twice"""

        err = _directed(pages, pair[1])
        if err:
            fails.append({"pages": pages, "error": err, "ops": [["directed-wildcard-pair", pair[0], pair[1]]]})
    for name, pages, steps in SCRIPTS:
        err = run_script(pages, steps)
        if err:
            fails.append({"pages": pages, "error": err, "ops": [["scripted", name]] + [list(map(str, st)) for st in steps]})
    return {"name": "history_vs_rebuild", "bound": f"{n} generated directories x histories of {5 if tier == 'quick' else 9} steps (edit/add/delete/move notes, continuation-line edits, restoring earlier contents, add/delete/rename pages, header edits, reindex with/without paths, day advancing) + {len(SCRIPTS)} scripted histories + 3 wildcard/case page-name pairs, final plain reindex compared with a fresh db create of the final files",
            "evaluations": n, "distinct_nontrivial": nontriv, "failures": fails, "samples": samples, "replay_fn": "replay_history"}


def replay_history(case):
    return False, "history replays are re-randomised; recorded: " + case.get("error", "") + " ops=" + str(case.get("ops"))[:400]


BOUNDED = [histories]
