"""Level 2 for the file grammar: the walk of ZorgFileCompiler over every parse tree of the parser's ATN (engine/l2.py),
as deductive obligations shared by the C01 / C02 / C08 plans."""
from __future__ import annotations

import json
import os
import sys
import time

from engine import extra

ASSUMPTIONS = [
    "A-ANTLR-TREE (Level 2): a page parsed without syntax error yields a tree that is a derivation in ZorgFileParser.atn; ParseTreeWalker calls enterR, the children left to right, exitR",
    "A-ANTLR-MINALT (Level 2): of two alternatives of one decision that derive the same tokens with the same continuation ANTLR selects the earlier one (used to exclude `unquoted_word -> priority`; side conditions checked on the ATN)",
    "Level 2 assumes the requires clauses of the listener contracts that are token-shape facts (justified by the lexer lemmas) and the stated restriction 'no bullet-property markers' of the exit listeners (the bullet scan of _add_note is covered by the bounded tier only)",
    "Level 2 abstracts the compiler state to 38 predicates (14 control predicates relationally, 24 data predicates three-valued per control valuation); quantified frame facts are replaced by free Booleans (over-approximation)",
]


def _reach(P, root):
    atn, names = P.atn, list(P.ruleNames)
    seen, st = set(), [names.index(root)]
    while st:
        r = st.pop()
        if r in seen:
            continue
        seen.add(r)
        for s in atn.states:
            if s is not None and s.ruleIndex == r:
                for t in s.transitions:
                    if t.serializationType == 3:
                        st.append(t.ruleIndex)
    return {names[i] for i in seen}


def _walk():
    sys.setrecursionlimit(20000)
    from contracts import c01, l2_file as LF
    from engine import l2
    from engine import verify as V
    from zorg.grammar.zorg_file.ZorgFileParser import ZorgFileParser as P
    from zorg.service.compiler._file_compiler import ZorgFileCompiler

    t0 = time.time()
    cs = V.load_contracts(["contracts.c01"])
    A = l2.Abstraction(cs, c01.__dict__, c01.SELF, LF.PREDICATES, LF.DATA)
    words = _reach(P, LF.WORD_RULES_ROOT) | {"todo_prefix", "priority"}
    W = l2.Walk("zorg.grammar.zorg_file.ZorgFileParser", "ZorgFileParser", ZorgFileCompiler, c01.M, A, LF.region_fn, LF.make_checks(words), LF.DEAD_ALTERNATIVES)
    a0 = tuple(int(LF.INITIAL[n]) for n in A.names)
    obs = []
    crash = None
    try:
        side = W.check_dead_alternatives()
        out = W.walk_rule(list(P.ruleNames).index("prog"), a0, "NONE", ())
    except Exception as e:  # Unsupported / SpecError: the walk is undecided, never a violation
        crash = f"{type(e).__name__}: {e}"
        side, out = [], {}
    wall = time.time() - t0
    if crash:
        return [{"function": "walk:ZorgFileCompiler over ZorgFileParser.atn (Level 2)", "status": "undecided", "source_file": "src/zorg/grammar/zorg_file/ZorgFileParser.py",
                 "source_lines": [0, 0], "paths": 0, "vcs": 1, "vcs_discharged": 0,
                 "obligations": [{"name": "L2/walk", "kind": "invariant", "status": "undecided", "vcs": 1, "time_s": round(wall, 2), "detail": "walk not completed", "backends": ["z3"], "why": crash[:600]}],
                 "undecided_reason": "L2 walk: " + crash[:300], "vacuous": False, "solver_time_s": round(A.solver_time, 2), "wall_s": round(wall, 2), "backends": {"z3": 0},
                 "inlined": [], "used_contracts": [], "used_models": ["A-ANTLR-TREE"], "refuted": []}]
    by = {}
    for v in W.violations:
        by.setdefault(v["obligation"], []).append(v)
    for name, _fn in W.checks:
        n = W.check_counts.get(name, 0)
        vs = by.get(name, [])
        st = "refuted" if vs else ("proved" if n > 0 else "undecided")
        why = ""
        if vs:
            v = vs[0]
            why = (f"{len(vs)} reachable abstract state(s) violate it; first: at {v['point']} of rule {v['rule']} (region {v['region']}), along "
                   f"{' > '.join(v['trail'])}; predicates true: {[k for k, x in v['state'].items() if x is True]}; unknown: {[k for k, x in v['state'].items() if x == 'unknown']}")
        elif n == 0:
            why = "no evaluation point reached (vacuous)"
        obs.append({"name": name, "kind": "invariant", "status": st, "vcs": max(n, 1), "detail": f"evaluated at {n} reachable (rule, abstract state, region) points", "why": why, "model": None})
    # listener preconditions at every call of the walk
    fp = A.failed_pre
    why = ""
    if fp:
        k, a, msg = fp[0]
        why = f"{len(fp)} (method, abstract state) pairs; first: {k.split('.')[-1]}: {msg}; predicates true: {[n for n, v in zip(A.names, a) if v == 1]}; unknown: {[n for n, v in zip(A.names, a) if v == 2]}"
    refuted_pre = any("refuted" in m or "raising" in m for _, _, m in fp)
    obs.append({"name": "L2/listener-preconditions-hold-at-every-call-of-the-walk", "kind": "pre@call", "status": ("refuted" if refuted_pre else "undecided") if fp else "proved",
                "vcs": max(A.n_transformers, 1), "detail": f"{A.n_transformers} (method, relevant abstract pre-state) transformers from {A.n_paths} contract paths of {len(A._sum)} listener methods", "why": why, "model": None})
    obs.append({"name": "L2/no-reachable-state-without-successor (vacuity guard)", "kind": "cover", "status": "proved" if not A.dead else "undecided", "vcs": 1,
                "detail": "every reachable abstract state has a post-state under each listener contract",
                "why": "" if not A.dead else f"{len(A.dead)} dead ends; first: {A.dead[0][0].split('.')[-1]} from {[n for n, v in zip(A.names, A.dead[0][1]) if v == 1]}", "model": None})
    obs.append({"name": "L2/every-overridden-listener-method-has-a-contract", "kind": "cover", "status": "proved" if not W.missing_contracts else "undecided", "vcs": 1,
                "detail": f"{len(W.overridden)} enter/exit methods overridden by ZorgFileCompiler", "why": "" if not W.missing_contracts else f"without contract (treated as undecided, not as identity): {sorted(W.missing_contracts)}", "model": None})
    import antlr4

    hooks = [n for n in ("enterEveryRule", "exitEveryRule", "visitTerminal", "visitErrorNode") if getattr(ZorgFileCompiler, n) is not getattr(antlr4.ParseTreeListener, n)]
    obs.append({"name": "L2/generic-walker-hooks-are-the-inherited-no-ops", "kind": "cover", "status": "proved" if not hooks else "undecided", "vcs": 1,
                "detail": "enterEveryRule / exitEveryRule / visitTerminal / visitErrorNode are not overridden, so only the per-rule enter/exit methods act during the walk",
                "why": "" if not hooks else f"overridden: {hooks} (their effect is outside the walk model)", "model": None})
    obs.append({"name": "L2/walk-ends-in-a-closed-state (cover)", "kind": "cover", "status": "proved" if out else "undecided", "vcs": 1, "detail": f"{len(out)} final control valuations, {len(W.visits)} rule visits, {W.n_nodes} ATN nodes", "why": "" if out else "no final state reached", "model": None})
    for name, ok, detail in side:
        obs.append({"name": name, "kind": "lemma", "status": "proved" if ok else "refuted", "vcs": 1, "detail": detail, "why": "" if ok else detail, "model": None})
    rep = extra.report("walk:ZorgFileCompiler over ZorgFileParser.atn (Level 2)", obs, backend="z3+atn-fixpoint", wall=wall, source="src/zorg/grammar/zorg_file/ZorgFileParser.py",
                       models=["A-ANTLR-TREE", "A-ANTLR-MINALT"])
    rep["solver_time_s"] = round(A.solver_time, 2)
    rep["used_contracts"] = sorted(k.split(":")[-1] for k in A._sum)
    rep["paths"] = A.n_paths
    return [rep]


def l2_file_walk(tier, seed):
    from engine import check as C

    import hashlib

    own = hashlib.sha256(open(__file__, "rb").read()).hexdigest()[:12]  # the engine / contracts / repo hash does not cover this file
    cp = C._cache_path("extra", "l2_file_walk:" + own, "any")
    if os.environ.get("PYVC_NO_CACHE") != "1" and os.path.exists(cp):
        r = json.load(open(cp))
        for x in r:
            x["cached"] = True
        return r
    r = _walk()
    if all(x["status"] in ("proved", "refuted") for x in r):
        os.makedirs(os.path.dirname(cp), exist_ok=True)
        tmp = cp + f".{os.getpid()}.tmp"
        json.dump(r, open(tmp, "w"), default=str)
        os.replace(tmp, cp)
    return r
