"""C11 plan: stamping contracts (first-line rewrite) + edit histories over several frozen days."""
import datetime as dt
import random
import re

from checks import c05 as C05
from checks import pagegen as G
from checks.zdirlab import Lab, diff_index_vs_files

PROPERTY = "C11"
CONTRACTS = ["contracts.c05", "contracts.c11"]
LEVEL = "other"
EXPLANATION = (
    "Contract-based (bounded-symbolic): _check_for_modified_notes - the function that decides which notes a reindex stamps - is "
    "verified against the statement: a note of the new page is stamped exactly when it carries a ZID the old page knows, differs "
    "from that indexed note (body or todo payload) and is not already dated today; a stamped note gets today's date and a body "
    "in which today's YYMMDD takes the place of the old modify-date word (or is put in front when there was none); every other "
    "note is untouched; one ModifiedZorgNotesEvent listing exactly the stamped notes in page order is queued iff something was "
    "stamped (new page <= 1 note, old page <= 2 / 3 notes, every field fully symbolic; Page.notes through an assumed contract). "
    "_pop_line_before_zid and _add_or_update_modify_date are verified against the specification of the stamped first line "
    "(YYMMDD inserted in front of the ZID, or replacing the date that is there; prefix kept) for every first line of a bounded "
    "number of fully symbolic words. "
    "_update_zo_file - the write-back both handlers use - is verified over the file-system model: the page becomes exactly the old lines with the first line of every note to update passed through the line function (every other line byte-identical), only the page and the hash file change, and only the page's own hash entry is refreshed (pages <= 3 / 4 lines, <= 2 notes, lines / ZIDs / line numbers fully symbolic, line function and value getter uninterpreted; _get_file_hash_path / _write_file_hash_to_disk / _hash_file assumed). "
    "Index/file agreement along whole histories and quiescence of an immediately "
    "following reindex are checked on generated and directed edit histories over frozen calendar days through the real "
    "ReindexDBCommand (bounded)."
)
ASSUMPTIONS = ["A-FS", "the hash file exists when _update_zo_file runs", "A-ASCII", "the calendar day is constant during one command (freezegun in the bounded tier)"]
TRUSTED = ["SQLAlchemy/SQLite, antlr4 (end-to-end part runs the real stack)", "z3 5.1 / cvc5 1.0.3", "pyvc symbolic interpreter (engine/)"]
FIRST = re.compile(r"^(-|[ox~<>])( P[0-9])? ")


def _note_lines(text):
    """indices of first lines of items (column-0 kind character)"""
    return [i for i, ln in enumerate(text.split("\n")) if FIRST.match(ln)]


def run_history(seed_pages: dict, rng, days):
    """Returns None or an error description. Edits are applied between reindex runs on consecutive frozen days."""
    from contracts import c05
    from freezegun import freeze_time

    with Lab() as lab:
        for rel, t in seed_pages.items():
            lab.write(rel, t)
        with freeze_time(days[0].isoformat() + " 10:00:00"):
            lab.create()
            err = diff_index_vs_files(lab)
            if err:
                return None  # C05's business (known findings there); not a C11 verdict
        for day in days[1:]:
            with freeze_time(day.isoformat() + " 10:00:00"):
                before_files = lab.files()
                before_idx = {d["zid"]: d for d in lab.index_notes()}
                edited = {}  # rel -> {line index: kind of edit}
                for rel, text in before_files.items():
                    lines = text.split("\n")
                    for i in _note_lines(text):
                        r = rng.random()
                        if r < 0.25:
                            lines[i] = lines[i] + " edited"
                            edited.setdefault(rel, {})[i] = "body"
                        elif r < 0.33 and lines[i][0] in "ox":
                            lines[i] = ("x" if lines[i][0] == "o" else "o") + lines[i][1:]
                            edited.setdefault(rel, {})[i] = "kind"
                        elif r < 0.40 and re.match(r"^[ox~<>] P[0-9] ", lines[i]):
                            lines[i] = lines[i][:3] + str((int(lines[i][3]) + 1) % 10) + lines[i][4:]
                            edited.setdefault(rel, {})[i] = "priority"
                    if rng.random() < 0.3:
                        lines[0] = lines[0] + " retitled"  # header-only edit: stamps nothing
                    lab.write(rel, "\n".join(lines))
                mid_files = lab.files()
                try:
                    lab.reindex()
                except Exception as e:
                    return f"reindex raised {type(e).__name__}: {str(e)[:200]}"
                after = lab.files()
                today6 = day.strftime("%y%m%d")
                for rel in mid_files:
                    a, b = mid_files[rel].split("\n"), after[rel].split("\n")
                    if len(a) != len(b):
                        return f"{rel}: line count changed by reindex"
                    for i, (x, y) in enumerate(zip(a, b)):
                        was_edited = i in edited.get(rel, {})
                        m = re.search(r"[0-9]{6}#[0-9A-Za-z]{2,3}", x.split(" ", 4)[-1] if False else x)
                        zid = m.group(0) if (m and FIRST.match(x)) else None
                        old = before_idx.get(zid) if zid else None
                        words = x.split(" ")
                        k = c05.indent_of(words)
                        rest = c05.rest_of(words) if FIRST.match(x) and len(words) > k + 1 else []
                        lead_date = rest[0] if rest and re.fullmatch(r"[0-9]{6}", rest[0]) else None
                        own_zid = (rest[1] if lead_date and len(rest) > 1 else rest[0] if rest else None)
                        has_own = bool(own_zid and re.fullmatch(r"[0-9]{6}#[0-9A-Za-z]{2,3}", own_zid) and own_zid in before_idx)
                        should = was_edited and has_own and lead_date != today6
                        if should:
                            want = c05.with_modify_date(today6, words)
                            if y != want:
                                return f"{rel}:{i+1} edited ({edited[rel][i]}) on {day}: expected stamped line {want!r}, file has {y!r}"
                        elif x != y and not (FIRST.match(x) and not has_own):
                            return f"{rel}:{i+1} not to be stamped but changed: {x!r} -> {y!r}"
                err = diff_index_vs_files(lab)
                if err:
                    return f"after reindex on {day}: " + err
                snap = lab.files()
                try:
                    lab.reindex()
                except Exception as e:
                    return f"second reindex raised {type(e).__name__}: {str(e)[:200]}"
                if lab.files() != snap:
                    return f"an immediately following reindex on {day} changed a file again"
    return None


def is_f18(case) -> bool:
    """Known finding F18: a note whose explicit YYMMDD modify date equals its create date (the date part of its ZID):
    when it is stamped, the index keeps the old date word in the body ('240302 220615 220615#oK ...') while the file
    has it replaced."""
    pat = re.compile(r"^(-|[ox~<>]( P[0-9])?) +([0-9]{6}) \3#")
    return " body: index " in case.get("error", "") and any(pat.match(ln) for t in case["pages"].values() for ln in t.split("\n"))


def histories(tier, seed):
    rng = random.Random(seed * 17 + 3)
    n = 12 if tier == "quick" else 200
    days = [dt.date(2024, 3, 1), dt.date(2024, 3, 2), dt.date(2024, 3, 3), dt.date(2024, 3, 5)]
    fails, nontriv, samples = [], 0, []
    for i in range(n):
        pages = C05._gen_dir(rng)
        # regular spacing only: irregular spacing is C05's known finding F12
        pages = {k: re.sub(r"^(-|[ox~<>])( P[0-9])?  +", lambda m: m.group(0).rstrip() + " ", v, flags=re.M) for k, v in pages.items()}
        st = rng.getstate()
        err = run_history(pages, rng, days[: 3 if tier == "quick" else 4])
        nontriv += 1
        if err:
            fails.append({"pages": pages, "error": err, "rng": repr(st)[:0], "seed": seed, "index": i})
        if i == 0:
            samples.append({"pages": {k: v[:160] for k, v in pages.items()}, "days": [d.isoformat() for d in days]})
    # directed history (always run): a multi-line note is edited on two later days (second stamping takes another branch),
    # next to an untouched note, a P0 todo and a plain note
    class Always(random.Random):
        def random(self):
            return 0.1  # always the "append a word" edit

    directed = {"d.zo": "# Directed\n\n- 240101#da multi line note\n  * first bullet\n  * second bullet  with  two spaces\no P0 240101#db a P0 todo\nx 240101#dc done todo\n\n"}
    err = run_history(directed, Always(1), days[:4])
    if err:
        fails.append({"pages": directed, "error": err, "seed": seed, "index": -1})
    return {"name": "edit_histories", "bound": f"{n} generated directories x histories over {3 if tier == 'quick' else 4} frozen days (body / kind / priority / header-only edits, notes stamped on earlier days, new and untouched notes) through the real ReindexDBCommand",
            "evaluations": n, "distinct_nontrivial": nontriv, "failures": fails, "samples": samples, "replay_fn": "replay_history"}


def replay_history(case):
    rng = random.Random(case.get("seed", 0) * 17 + 3 + case.get("index", 0))
    err = run_history(case["pages"], rng, [dt.date(2024, 3, 1), dt.date(2024, 3, 2), dt.date(2024, 3, 3)])
    return err is None, err or "ok (edits are re-randomised on replay)"


BOUNDED = [histories]
