"""C09 plan: selector / header contracts + end-to-end rendering laws on a real index (bounded)."""
import itertools
import random
import re

from checks import c03 as C03
from checks.zdirlab import Lab, norm_page

PROPERTY = "C09"
CONTRACTS = ["contracts.c09"]
LEVEL = "other"
EXPLANATION = (
    "Contract-based: _get_header (one header style per level 1-4, error above; all integers), NoteType.to_header_label, "
    "SelectAggregation.aggregate for all inputs; _select_tags / _select_prop_keys / _select_prop_values / _select_links / "
    "_select_file (exactly the distinct values carried, sorted under alpha) for bounded-symbolic note lists. "
    "End to end (bounded): queries with every select form, 0-4 grouping dimensions and ordering lists are executed on a real "
    "index and the rendered text is checked against the laws of the statement (each matching note exactly once under headers "
    "whose labels are its own values, header levels, sibling headers sorted and distinct, order within a group, count = "
    "number of selected entries)."
)
ASSUMPTIONS = ["sorted / itertools.groupby behave as documented (A-BUILTIN)"]
TRUSTED = ["SQLAlchemy/SQLite, antlr4 (real stack)", "z3 5.1 / cvc5 1.0.3", "pyvc symbolic interpreter (engine/)"]

HDR = {"#" * 32: 1, "=" * 24: 2, "+" * 16: 3, "-" * 8: 4}
TYPE_LABEL = {"OPEN_TODO": "1 | OPEN TODOS", "BLOCKED_TODO": "1 | OPEN TODOS", "PARENT_TODO": "1 | OPEN TODOS", "CLOSED_TODO": "2 | DONE TODOS",
              "CANCELED_TODO": "3 | CANCELED TODOS", "BASIC": "4 | NOTES"}
SYM = {"#": "areas", "@": "contexts", "%": "people", "+": "projects"}


def label(n, dim):
    if dim in SYM:
        return " | ".join(dim + t for t in sorted(n["tags"][SYM[dim]]))
    if dim == "file":
        return "[[" + n["page"].replace(".zo", "") + "]]"
    if dim == "type":
        return TYPE_LABEL[n["kind"]]
    if dim == "priority":
        return n["priority"] or ""
    if dim == "section":
        return " | ".join(n["section"])  # titles of the enclosing sections, outermost first
    raise KeyError(dim)


H_MARK = {"#" * 32: 1, "=" * 24: 2, "+" * 16: 3, "-" * 8: 4}


def sections_of(text):
    """line number (1-based) -> titles of the sections enclosing that line, read off the header lines of the file"""
    cur, out = {}, {}
    for i, ln in enumerate(text.split("\n"), 1):
        m = next((h for h in H_MARK if ln.startswith(h + " ")), None)
        if m:
            lv = H_MARK[m]
            cur = {k: v for k, v in cur.items() if k < lv}
            cur[lv] = ln[len(m) + 1:].strip()
        out[i] = [cur[k] for k in sorted(cur)]
    return out


def parse(text):
    """-> list of (labels: list[(level, label)], entry text)"""
    out, path, cur = [], [], None
    for ln in text.split("\n"):
        m = next((h for h in HDR if ln.startswith(h + " ") or ln == h), None)
        if m:
            lv = HDR[m]
            path = [p for p in path if p[0] < lv] + [(lv, ln[len(m) + 1:])]
            cur = None
            continue
        if not ln.strip():
            cur = None
            continue
        if ln.startswith(" ") and cur is not None:
            out[cur] = (out[cur][0], out[cur][1] + "\n" + ln)
        else:
            out.append((list(path), ln))
            cur = len(out) - 1
    return out


def note_text(n):
    ch = {"BASIC": "-", "OPEN_TODO": "o", "CLOSED_TODO": "x", "CANCELED_TODO": "~", "BLOCKED_TODO": "<", "PARENT_TODO": ">"}[n["kind"]]
    pr = f" {n['priority']}" if n["kind"] not in ("BASIC", "CLOSED_TODO", "CANCELED_TODO") else ""
    return f"{ch}{pr} {n['body'].strip()}"


def order_key(n, o):
    if o == "alpha":
        return note_text(n)
    if o == "create":
        return n["create"]
    if o == "modify":
        return n["modify"]
    if o == "priority":
        return n["priority"] or ""
    if o == "type":
        return TYPE_LABEL[n["kind"]]
    if o == "none":
        return (n["page"], n["line"])


LAST = {}


def is_f10(case) -> bool:
    """Known finding F10: `O none` compares '<path>::<line>' as text, so within a page line 10 sorts before line 2.
    The class is exactly: the rendered order IS sorted when `none` is read as that string (any other mis-ordering is reported)."""
    info = case.get("order")
    if not info or "none" not in info["orders"]:
        return False
    def skey(row):
        page, line, keys = row
        return tuple(f"{page}::{line}" if o == "none" else k for o, k in zip(info["orders"], keys))
    ks = [skey(r) for r in info["rows"]]
    return ks == sorted(ks)


def check_query(lab, U, select, where_txt, where_zids, orders, groups):
    from zorg.service.swog import execute

    q = f"S {select} W {where_txt}" + (" O " + " ".join(orders) if orders else "") + (" G " + " ".join(groups) if groups else "")
    try:
        text = execute(lab.zdir, lab.db_url, q)
    except Exception as e:
        return q, f"execute raised {type(e).__name__}: {str(e)[:200]}"
    notes = [n for n in U if n["zid"] in where_zids]
    dims = [g for g in groups if g != "none"]
    ents = parse(text)
    # header levels: consecutive from 1, one per non-empty dimension value
    if select == "note":
        by_zid = {}
        for labels, e in ents:
            m = re.search(r"[0-9]{6}#[0-9A-Za-z]{2,3}", e)
            if not m:
                return q, f"entry without ZID: {e!r}"
            by_zid.setdefault(m.group(0), []).append((labels, e))
        for n in notes:
            got = by_zid.get(n["zid"], [])
            if len(got) != 1:
                return q, f"note {n['zid']} appears {len(got)} times"
            labels, e = got[0]
            if e != note_text(n):
                return q, f"note {n['zid']} rendered as {e!r}, expected {note_text(n)!r}"
            want = [label(n, d) for d in dims]
            want = [w for w in want if w != ""]
            if [l for _, l in labels] != want:
                return q, f"note {n['zid']} under headers {[l for _, l in labels]}, expected {want}"
            full = [label(n, d) for d in dims]
            lv_want = [i + 1 for i, w in enumerate(full) if w != ""]
            if [lv for lv, _ in labels] != lv_want:
                return q, f"note {n['zid']} header levels {[lv for lv, _ in labels]}, expected {lv_want}"
        if set(by_zid) != {n["zid"] for n in notes}:
            return q, f"extra notes rendered: {sorted(set(by_zid) - {n['zid'] for n in notes})[:3]}"
        # sibling headers sorted and distinct; order within a group
        seq = [(tuple(l for _, l in labels), e) for labels, e in ents]
        groups_seen = []
        for k, grp in itertools.groupby(seq, key=lambda x: x[0]):
            if k in groups_seen:
                return q, f"group {k} appears twice (sibling headers not distinct / not contiguous)"
            groups_seen.append(k)
            if orders:
                zs = [re.search(r"[0-9]{6}#[0-9A-Za-z]{2,3}", e).group(0) for _, e in grp]
                ns = [next(n for n in notes if n["zid"] == z) for z in zs]
                keys = [tuple(order_key(n, o) for o in orders) for n in ns]
                if keys != sorted(keys):
                    LAST["order"] = {"orders": list(orders), "rows": [[n["page"], n["line"], [str(order_key(n, o)) for o in orders]] for n in ns]}
                    return q, f"group {k}: notes not in ORDER BY {orders} order: {zs}"
        full_paths = [tuple(labels) for labels, _ in ents]  # [(level, label), ...] per entry
        dedup = [p for i, p in enumerate(full_paths) if i == 0 or full_paths[i - 1] != p]
        by_parent = {}
        for p in dedup:
            for i, (lv, lab_) in enumerate(p):
                lst = by_parent.setdefault((p[:i], lv), [])
                if not lst or lst[-1] != lab_:
                    lst.append(lab_)
        for (parent, lv), labs in by_parent.items():
            if labs != sorted(set(labs)):
                return q, f"sibling level-{lv} headers under {[l for _, l in parent]} not sorted/distinct: {labs}"
    return q, None


def laws(tier, seed):
    from zorg.domain.models import WhereOrFilter
    from zorg.storage.sql import SQLSession

    rng = random.Random(seed * 7 + 9)
    n = 120 if tier == "quick" else 2000
    fails, samples, nontriv = [], [], 0
    with Lab() as lab:
        for rel, t in C03.PAGES.items():
            lab.write(rel, t)
        # a page with more than nine items: `O none` must order by line NUMBER (10 after 9), not by its decimal string
        lab.write("plong.zo", "# Long page\n\n" + "".join(f"- 240110#l{i:x} item number {i}\n" for i in range(1, 14)) + "\n")
        # a property with an empty value (a bare `key::` bullet followed by another property bullet)
        lab.write("pprops.zo", "# Props page\n\n- 240111#e5 has an empty status\n  * status::\n  * owner:: alice\n- 240111#e6 has a status\n  * status:: open\n\n")
        # sibling sections whose titles are prefixes of each other (`Sprint` / `Sprint 2`, `Sub` / `Sub A`), values shared across groups
        lab.write("psec.zo", "# Sections page\n\n" + "#" * 32 + " Sprint\n\no P1 240112#s1 todo in sprint +shared k::v1\n- 240112#s2 note in sprint +shared #work [[p1]]\nx 240112#s3 done in sprint\n\n"
                  + "#" * 32 + " Sprint 2\n\n- 240112#s4 note in sprint two +shared k::v1 [[p1]]\no 240112#s5 todo in sprint two #work\n\n"
                  + "=" * 24 + " Sub A\n\n- 240112#s6 note in sub a +shared\n\n" + "=" * 24 + " Sub\n\n- 240112#s7 note in sub k::v2\no P0 240112#s8 todo in sub +shared\n\n")
        lab.create()
        U = C03.universe(lab)
        files = lab.files()
        for m in U:
            m["section"] = sections_of(files[m["page"]]).get(m["line"], [])
        wheres = [("- | o | x | ~ | < | >", {m["zid"] for m in U}), ("o | x", {m["zid"] for m in U if m["kind"] in ("OPEN_TODO", "CLOSED_TODO")}),
                  ("#work", {m["zid"] for m in U if "work" in m["tags"]["areas"]}), ("f=p*", {m["zid"] for m in U if m["page"].startswith("p")}),
                  ("f=psec*", {m["zid"] for m in U if m["page"].startswith("psec")}), ("f=psec*", {m["zid"] for m in U if m["page"].startswith("psec")})]
        for i in range(n):
            wt, wz = rng.choice(wheres)
            groups = rng.sample(["file", "type", "priority", "#", "@", "%", "+", "section", "section", "none"], rng.randint(0, 4))
            groups = [g for j, g in enumerate(groups) if g not in groups[:j]]
            orders = [rng.choice(["alpha", "create", "modify", "priority", "type", "none"]) for _ in range(rng.randint(0, 2))]
            q, err = check_query(lab, U, "note", wt, wz, orders, groups)
            nontriv += len([g for g in groups if g != "none"]) >= 1
            if err:
                fails.append({"query": q, "error": err, "order": LAST.pop("order", None)})
            if i < 2:
                samples.append({"query": q})
            # count(x) equals the number of entries selecting x yields, per group
            sel = rng.choice(["#", "@", "%", "+", "prop", "links", "file", "prop:n", "prop:due", "note"])
            g2 = rng.sample(["file", "type", "#", "section", "priority"], rng.randint(0, 2))
            err = check_count(lab, sel, wt, g2)
            if err:
                fails.append({"query": f"S count({sel}) W {wt} G {' '.join(g2)}", "error": err})
            for key in ("status", "owner", "n"):
                e2 = check_count_values(lab, U, key, wt, wz)
                if e2:
                    fails.append({"query": f"S count(prop:{key}) W {wt}", "error": e2})
            err = check_values(lab, U, sel, wt, wz)
            if err:
                fails.append({"query": f"S {sel} W {wt} O alpha", "error": err})
            err = check_values_grouped(lab, U, sel, wt, wz, g2, alpha=rng.random() < 0.5)
            if err:
                fails.append({"query": f"S {sel} W {wt} G {' '.join(g2)}", "error": err})
    return {"name": "rendering_laws", "bound": f"{n} random (where, order list <= 2, 0-4 group dimensions) x select note + count/selection cross-checks on a fixture index of 5 pages / 11 notes",
            "evaluations": 3 * n, "distinct_nontrivial": nontriv, "failures": fails, "samples": samples, "replay_fn": "replay_query"}


def check_count(lab, sel, wt, groups):
    from zorg.service.swog import execute

    g = (" G " + " ".join(groups)) if groups else ""
    try:
        a = execute(lab.zdir, lab.db_url, f"S {sel} W {wt}{g}")
        b = execute(lab.zdir, lab.db_url, f"S count({sel}) W {wt}{g}")
    except Exception as e:
        return f"execute raised {type(e).__name__}: {str(e)[:200]}"
    ea, eb = parse(a), parse(b)
    cnt = {}
    for labels, e in ea:
        cnt[tuple(l for _, l in labels)] = cnt.get(tuple(l for _, l in labels), 0) + 1
    for labels, e in eb:
        k = tuple(l for _, l in labels)
        if str(cnt.get(k, 0)) != e.strip():
            return f"count({sel}) under {k} is {e.strip()} but selecting {sel} yields {cnt.get(k, 0)} entries"
    return None


def check_count_values(lab, U, key, wt, wz):
    """count(prop:key) equals the number of distinct values carried by the matching notes (empty values included)."""
    from zorg.service.swog import execute

    try:
        out = execute(lab.zdir, lab.db_url, f"S count(prop:{key}) W {wt}")
    except Exception as e:
        return f"execute raised {type(e).__name__}: {str(e)[:200]}"
    want = len({n["props"][key] for n in U if n["zid"] in wz and key in n["props"]})
    if out.strip() != str(want):
        return f"count(prop:{key}) is {out.strip()!r}, the matching notes carry {want} distinct values"
    return None


def check_values(lab, U, sel, wt, wz):
    from zorg.service.swog import execute

    if sel == "note":
        return None
    try:
        text = execute(lab.zdir, lab.db_url, f"S {sel} W {wt} O alpha")
    except Exception as e:
        return f"execute raised {type(e).__name__}: {str(e)[:200]}"
    got = [e for _, e in parse(text)]
    notes = [n for n in U if n["zid"] in wz]
    if sel in SYM:
        want = {t for n in notes for t in n["tags"][SYM[sel]]}
    elif sel == "prop":
        want = {k for n in notes for k in n["props"]}
    elif sel == "links":
        want = {l for n in notes for l in n["links"]}
    elif sel == "file":
        want = {n["page"] for n in notes}
        got = [g.split("/org/")[-1] if "/org/" in g else g for g in got]
    elif sel.startswith("prop:"):
        want = {n["props"][sel[5:]] for n in notes if sel[5:] in n["props"]}
    if got != sorted(want):
        return f"selection {sel} lists {got}, expected sorted distinct {sorted(want)}"
    return None


def values_of(notes, sel):
    if sel in SYM:
        return {t for n in notes for t in n["tags"][SYM[sel]]}
    if sel == "prop":
        return {k for n in notes for k in n["props"]}
    if sel == "links":
        return {l for n in notes for l in n["links"]}
    if sel.startswith("prop:"):
        return {n["props"][sel[5:]] for n in notes if sel[5:] in n["props"]}
    return None


def check_values_grouped(lab, U, sel, wt, wz, groups, alpha):
    """Under every group header a value selection lists exactly the distinct values carried by the notes of THAT group."""
    from zorg.service.swog import execute

    if values_of([], sel) is None:
        return None
    q = f"S {sel} W {wt}" + (" O alpha" if alpha else "") + (" G " + " ".join(groups) if groups else "")
    try:
        text = execute(lab.zdir, lab.db_url, q)
    except Exception as e:
        return f"execute raised {type(e).__name__}: {str(e)[:200]}"
    got = {}
    for labels, e in parse(text):
        got.setdefault(tuple(l for _, l in labels), []).append(e)
    want = {}
    for n in U:
        if n["zid"] in wz:
            k = tuple(w for w in (label(n, d) for d in groups) if w != "")
            want.setdefault(k, []).append(n)
    for k, ns in want.items():
        w = values_of(ns, sel)
        g = got.get(k, [])
        if len(g) != len(set(g)):
            return f"{q}: group {list(k)} lists a value twice: {g}"
        if set(g) != w or (alpha and g != sorted(w)):
            return f"{q}: group {list(k)} lists {g}, the notes of that group carry {sorted(w)}"
    extra = [k for k in got if k not in want and got[k]]
    if extra:
        return f"{q}: group {list(extra[0])} is rendered but no matching note has these labels"
    return None


def replay_query(case):
    return False, "recorded: " + case.get("error", "")


BOUNDED = [laws]
