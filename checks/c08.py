"""C08 plan: no internal exception on conforming trees (Level 1), refusal logic, invalid text end to end."""
import itertools
import random
import shutil
import tempfile
from pathlib import Path

from checks import e2e_pages
from checks import l2walk
from checks import pagegen as G

PROPERTY = "C08"
CONTRACTS = ["contracts.c01", "contracts.c08"]
LEVEL = "other"
EXPLANATION = (
    "Deductive: every listener method under contract has a 'raises nothing' obligation for all states and all token texts "
    "of its rule (this is what found the strptime ValueErrors and the bullet-scan IndexError, repaired by fix commits), and "
    "the refusal logic of create_database / reindex_database (refuse a new broken page, accept a whitelisted one) is NOT under contract: it is covered by the bounded refusal histories below. "
    "Level 2 (deductive, all parse trees): the walk of the listener over every derivation of ZorgFileParser.atn is verified over a predicate abstraction of the compiler state (engine/l2.py): each listener method is replaced by its Level-1 contract (one symbolic summary per method, abstract transformers by all-SAT), reachability over the ATN with rule summaries is the inductive invariant, and the walk obligations hold on it: the scope flags encode the syntactic region at every word (G1), a section's stores are empty when it is entered and reset when it is left (G3), parent sections are open (G6), the todo registers hold their defaults at every item (G5), note registers are reset and a block is open at every note, everything is closed at the end, and every precondition of a listener method holds at every call of the walk. "
    "(for C08: no listener method is ever called outside its precondition on a conforming tree, so 'raises nothing' composes). "
    "Bounded (stated bound): totality and flag honesty on *invalid* text, where trees come from ANTLR's error recovery and are "
    "outside the tree assumption: all strings up to a length bound over a 14-symbol alphabet and valid pages damaged by edits, "
    "through the real walk_zorg_page and CreateDBCommand."
)
ASSUMPTIONS = l2walk.ASSUMPTIONS + ["A-ANTLR-TREE for the deductive part; error-recovery tree shapes are only covered by the bounded part", "A-ASCII"]
EXTRA = [l2walk.l2_file_walk]
TRUSTED = ["antlr4 runtime", "z3 5.1 / cvc5 1.0.3", "pyvc symbolic interpreter (engine/)"]
ALPHABET = ["#", "-", "o", "x", "P", "1", ":", "[", "]", "'", " ", "\n", "a", "2"]


def parser_errors(text: str, zdir: Path):
    """Independent run of the real lexer+parser: does the parser report a syntax error?"""
    import antlr4
    from zorg.grammar.zorg_file.ZorgFileLexer import ZorgFileLexer
    from zorg.grammar.zorg_file.ZorgFileParser import ZorgFileParser
    from zorg.service.compiler._file_compiler import ErrorManager

    p = zdir / "probe.zo"
    p.write_text(text)
    parser = ZorgFileParser(antlr4.CommonTokenStream(ZorgFileLexer(antlr4.FileStream(str(p), errors="ignore"))))
    parser.removeErrorListeners()
    em = ErrorManager()
    parser.addErrorListener(em)
    parser.prog()
    return list(em.errors)


def check_text(text: str, zdir: Path):
    """None if compile terminates without internal exception and the flag equals 'parser reported an error'."""
    try:
        errs = parser_errors(text, zdir)
        page = e2e_pages.compile_text(text, zdir)
    except Exception as e:
        return f"compilation raised {type(e).__name__}: {e}"
    if bool(errs) != bool(page.has_errors):
        return f"parser errors={len(errs)} but has_errors={page.has_errors} (notes={len(page.notes)})"
    return None


def is_f5(case) -> bool:
    """Known finding F5: the parser reports an error but the page is not flagged, *and* no item with a body ends at or
    after the first error (has_errors is only set when such an item is reached). A broken page with a later item that is
    not flagged is NOT in this class and is still reported."""
    if not (case.get("error", "").startswith("parser errors=") and "has_errors=False" in case.get("error", "")):
        return False
    import antlr4
    from antlr4.error.ErrorListener import ErrorListener
    from zorg.grammar.zorg_file.ZorgFileLexer import ZorgFileLexer
    from zorg.grammar.zorg_file.ZorgFileParser import ZorgFileParser

    class First(ErrorListener):
        def __init__(self):
            self.first = None

        def syntaxError(self, recognizer, offendingSymbol, line, column, msg, e):
            if self.first is None:
                self.first = offendingSymbol.tokenIndex if offendingSymbol is not None else -1

    text = case["text"].encode("ascii", "ignore").decode()
    parser = ZorgFileParser(antlr4.CommonTokenStream(ZorgFileLexer(antlr4.InputStream(text))))
    parser.removeErrorListeners()
    fl = First()
    parser.addErrorListener(fl)
    tree = parser.prog()
    if fl.first is None:
        return False
    later = []

    def visit(n):
        if isinstance(n, (ZorgFileParser.Base_noteContext, ZorgFileParser.Base_todoContext)):
            nb = n.note_body()
            if nb is not None and nb.getText().strip() != "" and n.stop is not None and n.stop.tokenIndex >= fl.first:
                later.append(n)
        for c in (getattr(n, "children", None) or []):
            visit(c)

    visit(tree)
    return not later


def invalid_text(tier, seed):
    L = 3 if tier == "quick" else 4
    zdir = Path(tempfile.mkdtemp(prefix="zorgverif-c08-"))
    fails, n, nontriv = [], 0, 0
    rng = random.Random(seed)
    try:
        for k in range(0, L + 1):
            for tup in itertools.product(ALPHABET, repeat=k):
                text = "".join(tup)
                err = check_text(text, zdir)
                n += 1
                nontriv += k >= 2
                if err:
                    fails.append({"text": text, "error": err})
        m = 150 if tier == "quick" else 3000
        for _ in range(m):
            text, _exp = G.render(G.rand_page(rng))
            t = list(text)
            for _ in range(rng.randint(1, 2)):
                op = rng.random()
                i = rng.randrange(len(t) + 1)
                if op < 0.4 and t:
                    del t[min(i, len(t) - 1)]
                elif op < 0.8:
                    t.insert(i, rng.choice(ALPHABET + ["\t", "é", "]]", "::", "P9 "]))
                else:
                    j = rng.randrange(len(t) + 1)
                    t[min(i, j):max(i, j)] = []
            text = "".join(t)
            err = check_text(text, zdir)
            n += 1
            nontriv += 1
            if err:
                fails.append({"text": text, "error": err})
    finally:
        shutil.rmtree(zdir, ignore_errors=True)
    # failures of the known class are many: keep one representative per distinct error kind
    return {"name": "invalid_text", "bound": f"all strings of length <= {L} over {len(ALPHABET)} symbols + {m} random pages damaged by 1-2 character/segment edits; real lexer/parser/walk_zorg_page",
            "evaluations": n, "distinct_nontrivial": nontriv, "failures": fails, "samples": [{"text": "#-o"}, {"text": "- a\n"}], "replay_fn": "replay_text"}


def replay_text(case):
    zdir = Path(tempfile.mkdtemp(prefix="zorgverif-c08-"))
    try:
        err = check_text(case["text"], zdir)
        return err is None, err or "ok"
    finally:
        shutil.rmtree(zdir, ignore_errors=True)


def pages(tier, seed):
    return e2e_pages.run_random(tier, seed + 2, n_quick=150, n_thorough=3000, name="valid_pages_not_flagged")


replay_page = e2e_pages.replay_page
BOUNDED = [invalid_text, pages]


BULLET_PIECES = ["  * ", "    - ", "      + ", "k:: v", "k::", "::", ":: ", "x", "240101", "240101#ab", " ", "  ", "[k:: a b]", "P1", "-", "*", "+"]


def bullet_bodies(tier, seed):
    """Multi-line note bodies assembled from bullet markers, property fragments and blanks (the words the bullet-property scan
    of _add_note looks at): all sequences of <= 2 pieces per continuation line for one line, random ones for up to 3 lines."""
    zdir = Path(tempfile.mkdtemp(prefix="zorgverif-c08b-"))
    rng = random.Random(seed * 5 + 2)
    fails, n = [], 0

    def page(lines, first="- 240101#aa note"):
        return "# T\n\n" + first + "\n" + "".join("  " + ln.rstrip("\n") + "\n" for ln in lines) + "\n"

    try:
        cases = []
        for first in ("- 240101#aa note", "- 240101#aa note k:: v", "o P1 240101#aa todo ::"):
            for a in BULLET_PIECES:
                cases.append((first, [a.strip(" ") and a or "x"]))
                for b in BULLET_PIECES:
                    cases.append((first, [a + b]))
                    cases.append((first, [a, b]))
        for _ in range(300 if tier == "quick" else 6000):
            first = rng.choice(["- 240101#aa note", "- 240101#aa note k:: v", "x 240101#aa done [k:: v w]"])
            cases.append((first, ["".join(rng.choice(BULLET_PIECES) for _ in range(rng.randint(1, 4))) for _ in range(rng.randint(1, 3))]))
        for first, lines in cases:
            text = page(lines, first)
            err = check_text(text, zdir)
            n += 1
            if err:
                fails.append({"text": text, "error": err})
    finally:
        shutil.rmtree(zdir, ignore_errors=True)
    return {"name": "bullet_bodies", "bound": f"{n} note bodies whose continuation lines are assembled from {len(BULLET_PIECES)} bullet / property / blank pieces (all 1- and 2-piece lines, random lines up to 4 pieces x 3 lines)",
            "evaluations": n, "distinct_nontrivial": n, "failures": fails, "samples": [{"text": page(["    -     - x"], "- 240101#aa note k:: v")}], "replay_fn": "replay_text"}


DATE_WORDS = ["2024-04-31", "2023-02-29", "2024-02-30", "2024-06-31", "2024-13-01", "2024-00-10", "2024-01-00", "2024-01-32", "0000-00-00", "9999-99-99", "2024-02-29",
              "240431", "230229", "241301", "240100", "000000", "999999", "240229",
              "240431#ab", "230229#abc", "241301#00", "000000#00", "240229#zz", "999999#ZZZ", "240100#a0"]


def date_words(tier, seed):
    """Date-shaped and ZID-shaped words that are (or are not) calendar dates, in every position a word can take."""
    zdir = Path(tempfile.mkdtemp(prefix="zorgverif-c08d-"))
    fails, n = [], 0
    try:
        for w in DATE_WORDS:
            for text in (f"# T {w}\n\n- 240101#aa note\n\n", f"# T\n# {w} second head line\n\n- 240101#aa note\n\n", f"# T\n\n- {w} note starts with it\n\n",
                         f"# T\n\n- 240101#aa note with {w} inside\n\n", f"# T\n\no P1 {w} 240101#ab todo\n\n", f"# T\n\n- 240101#aa note\n  * {w} bullet\n\n",
                         f"# T\n\n- 240101#aa note due::{w}\n\n", f"# T\n\n- 240101#aa note\n  * due:: {w}\n\n", f"# T\n\n" + "#" * 32 + f" Section {w}\n\n- 240101#aa note\n\n",
                         f"# T\n\n- {w} {w} twice\nx {w}\n\n", f"# T\n\n- 240101#aa see [[{w}]] and [{w}] ({w})\n\n"):
                err = check_text(text, zdir)
                n += 1
                if err:
                    fails.append({"text": text, "error": err})
    finally:
        shutil.rmtree(zdir, ignore_errors=True)
    return {"name": "date_words", "bound": f"{len(DATE_WORDS)} date- / ZID-shaped words (calendar dates, impossible days and months, leap days) x 11 positions (title, head, first word, body, todo, bullet, property value, section header, links)",
            "evaluations": n, "distinct_nontrivial": n, "failures": fails, "samples": [{"text": "# T\n\n- 240101#aa note with 2024-04-31 inside\n\n"}], "replay_fn": "replay_text"}


def refusal(tier, seed):
    """`db create` / `db reindex` refuse a broken page unless it is whitelisted (histories of whitelists and page names)."""
    from checks.zdirlab import Lab

    GOOD = "# Good\n\n- 240101#AA fine\n"
    BAD = "# Bad\n\n- 240101#AB fine so far\n- broken [[ \n- 240101#AC after the error\n"
    fails, evals = [], 0
    rng = random.Random(seed)
    name_sets = [("day_log.zo", "log.zo"), ("work/a.zo", "a.zo"), ("notes_old.zo", "notes.zo"), ("x.zo", "y.zo"), ("ab.zo", "b.zo")]
    for first, second in name_sets:
        for mode in ("create", "reindex"):
            evals += 1
            with Lab() as lab:
                lab.write("good.zo", GOOD)
                lab.write(first, BAD)
                # 1. a broken page that is not whitelisted is refused
                try:
                    lab.create()
                    fails.append({"text": first, "error": f"db create accepted the broken, non-whitelisted page {first}"})
                    continue
                except RuntimeError:
                    pass
                except Exception as e:
                    fails.append({"text": first, "error": f"db create raised {type(e).__name__} instead of refusing: {str(e)[:100]}"})
                    continue
                # 2. explicitly whitelisting it is accepted and recorded
                try:
                    lab.create(update_whitelist=True)
                except Exception as e:
                    fails.append({"text": first, "error": f"db create --update-error-file-whitelist raised {type(e).__name__}: {str(e)[:100]}"})
                    continue
                wl = (lab.zdir / ".zorg" / "error_file_whitelist.txt").read_text().split("\n")
                if wl != [first]:
                    fails.append({"text": first, "error": f"whitelist is {wl}, expected [{first!r}]"})
                    continue
                # 3. another broken page (whose path is contained in the whitelisted one's) is still refused
                lab.write(second, BAD.replace("#A", "#B"))
                try:
                    (lab.create() if mode == "create" else lab.reindex())
                    fails.append({"text": second, "error": f"db {mode} accepted the broken page {second} (only {first} is whitelisted)"})
                    continue
                except RuntimeError:
                    pass
                except Exception as e:
                    fails.append({"text": second, "error": f"db {mode} raised {type(e).__name__} instead of refusing: {str(e)[:100]}"})
                    continue
                wl = (lab.zdir / ".zorg" / "error_file_whitelist.txt").read_text().split("\n")
                if second in wl:
                    fails.append({"text": second, "error": f"{second} was added to the whitelist without being asked: {wl}"})
                # 4. repairing the whitelisted page takes it off the list
                (lab.zdir / second).unlink()
                lab.write(first, GOOD.replace("#AA", "#AD"))
                try:
                    lab.create()
                    wl = [x for x in (lab.zdir / ".zorg" / "error_file_whitelist.txt").read_text().split("\n") if x]
                    if wl:
                        fails.append({"text": first, "error": f"repaired page still whitelisted: {wl}"})
                except Exception as e:
                    fails.append({"text": first, "error": f"db create after the repair raised {type(e).__name__}: {str(e)[:100]}"})
    return {"name": "refusal_logic", "bound": f"{len(name_sets)} pairs of page names (incl. names contained in one another) x create / reindex: refuse, whitelist, second broken page, repair",
            "evaluations": evals, "distinct_nontrivial": evals, "failures": fails, "samples": [{"names": list(name_sets[0])}], "replay_fn": "replay_text"}


BOUNDED = [invalid_text, bullet_bodies, date_words, pages, refusal]
