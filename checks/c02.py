"""C02 plan: routing / reset / merge contracts of the listener + skeleton enumeration end to end."""
import itertools
import random
import shutil
import tempfile
from pathlib import Path

from checks import e2e_pages
from checks import l2walk
from checks import pagegen as G

PROPERTY = "C02"
CONTRACTS = ["contracts.c01"]
LEVEL = "other"
EXPLANATION = (
    "Level 1 (deductive, all inputs): _add_tag / _add_prop route a tag or property to exactly the store selected by the scope "
    "flags (digit-only tags dropped, quoted properties skipped), every tag/link/property listener method goes through them, "
    "exitHk_section resets exactly level k, enterItem clears the note-level stores, create_date and properties implement the "
    "stated precedence (note > h4 > ... > file > today; innermost key wins) - all with frame obligations. "
    "Level 2 (deductive, all parse trees): the walk of the listener over every derivation of ZorgFileParser.atn is verified over a predicate abstraction of the compiler state (engine/l2.py): each listener method is replaced by its Level-1 contract (one symbolic summary per method, abstract transformers by all-SAT), reachability over the ATN with rule summaries is the inductive invariant, and the walk obligations hold on it: the scope flags encode the syntactic region at every word (G1), a section's stores are empty when it is entered and reset when it is left (G3), parent sections are open (G6), the todo registers hold their defaults at every item (G5), note registers are reset and a block is open at every note, everything is closed at the end, and every precondition of a listener method holds at every call of the walk. "
    "The bounded tier (exhaustive enumeration of section skeletons with one decorated scope each, plus random pages) ties the "
    "composition to the statement end to end."
)
ASSUMPTIONS = l2walk.ASSUMPTIONS + [
    "A-ANTLR-TREE (see C01)", "A-ASCII",
    "_get_current_tags (sorted set union of the six stores) is used through an assumed contract; exercised by the bounded tier",
]
EXTRA = [l2walk.l2_file_walk]
TRUSTED = ["antlr4 runtime", "z3 5.1 / cvc5 1.0.3", "pyvc symbolic interpreter (engine/)"]


def _skeletons(max_headers):
    """All legal header-level sequences (document order) with at most max_headers section headers."""
    out = []

    def legal_next(prev):
        # after level p, next header may be 1, or any level <= p+1 that keeps the nesting legal (2 may appear at top)
        return [l for l in (1, 2, 3, 4) if l <= prev + 1]

    def rec(seq):
        out.append(tuple(seq))
        if len(seq) == max_headers:
            return
        opts = [1, 2] if not seq else legal_next(seq[-1])
        for l in opts:
            if l == 2 and seq and seq[-1] == 0:
                continue
            # an H2 directly under the body is only legal before the first H1
            if l == 2 and seq and 1 not in seq and not all(x >= 2 for x in seq):
                continue
            rec(seq + [l])

    rec([])
    return out


def _page_from_levels(levels, marked, rng):
    """One item per section; scope number `marked` (0 = title, 1 = second header line, 2.. = section i-2, -1 = in-block comment) carries decorations."""
    deco = G.Deco(tags=[("projects", "mark"), ("areas", "77")], links=["[[target]]"], props=[("owner", f"s{marked}")], date=G.DATES[0])
    p = G.APage(["Title"], deco if marked == 0 else G.Deco(props=[("owner", "page")]))
    p.header_lines = [(["second"], deco if marked == 1 else G.Deco())]
    stack: dict[int, G.Section] = {}
    p.top_blocks = [[G.Item("-", words=["top"]), G.Item("#", words=["c"], deco=deco if marked == -1 else G.Deco())]]
    for i, lv in enumerate(levels):
        s = G.Section(lv, [f"S{i}"], deco if marked == i + 2 else G.Deco(), [[G.Item("o", words=[f"n{i}"])]])
        if lv == 1:
            p.h1s.append(s)
        elif lv == 2 and 1 not in stack:
            p.top_h2s.append(s)
        else:
            stack[lv - 1].subs.append(s)
        stack[lv] = s
        for deeper in range(lv + 1, 5):
            stack.pop(deeper, None)
        if lv == 1:
            pass
    return p


def skeletons(tier, seed):
    maxh = 4 if tier == "quick" else 6
    sk = _skeletons(maxh)
    zdir = Path(tempfile.mkdtemp(prefix="zorgverif-c02-"))
    fails, n, nontriv = [], 0, 0
    rng = random.Random(seed)
    try:
        for levels in sk:
            for marked in range(-1, len(levels) + 2):
                ap = _page_from_levels(list(levels), marked, rng)
                text, exp = G.render(ap)
                err = e2e_pages.check_page_text(text, exp, zdir)
                n += 1
                nontriv += len(levels) >= 2
                if err:
                    fails.append({"text": text, "error": err})
                    if len(fails) >= 5:
                        raise StopIteration
    except StopIteration:
        pass
    finally:
        shutil.rmtree(zdir, ignore_errors=True)
    return {"name": "section_skeletons", "bound": f"every legal H1>H2>H3>H4 header sequence with <= {maxh} headers ({len(sk)} skeletons) x every single decorated scope (title line, second header line, each section header, an in-block comment)",
            "evaluations": n, "distinct_nontrivial": nontriv, "failures": fails, "samples": [{"levels": list(sk[min(7, len(sk) - 1)])}], "exhaustive": True, "replay_fn": "replay_page"}


def pages(tier, seed):
    return e2e_pages.run_random(tier, seed + 1, n_quick=250, n_thorough=5000)


replay_page = e2e_pages.replay_page
BOUNDED = [skeletons, pages]
