"""A scratch notes directory driven through zorg's real command handlers (db create / db reindex)."""
from __future__ import annotations

import datetime as dt
import shutil
import sqlite3
import tempfile
from pathlib import Path
from typing import Optional

from checks import pagegen as G


import contextlib
import io


@contextlib.contextmanager
def _quiet():
    """zorg prints progress bars / banners on stdout; they are not check output."""
    with contextlib.redirect_stdout(io.StringIO()), contextlib.redirect_stderr(io.StringIO()):
        yield


class Lab:
    def __init__(self):
        self.root = Path(tempfile.mkdtemp(prefix="zorgverif-lab-"))
        self.zdir = self.root / "org"
        self.zdir.mkdir()
        self.db_url = f"sqlite:///{self.zdir}/.zorg/zorg.db"

    def close(self):
        try:
            from zorg.storage.sql._engine import create_cached_engine

            create_cached_engine.cache_clear()
        except Exception:
            pass
        shutil.rmtree(self.root, ignore_errors=True)

    def __enter__(self):
        return self

    def __exit__(self, *a):
        self.close()

    # ---- files
    def write(self, rel: str, text: str):
        p = self.zdir / rel
        p.parent.mkdir(parents=True, exist_ok=True)
        p.write_text(text)

    def read(self, rel: str) -> str:
        return (self.zdir / rel).read_text()

    def files(self) -> dict[str, str]:
        return {str(p.relative_to(self.zdir)): p.read_text() for p in sorted(self.zdir.rglob("*.zo"))}

    # ---- commands
    def create(self, update_whitelist=False):
        from zorg.domain.messages import commands
        from zorg.service import messagebus
        from zorg.storage.sql._engine import create_cached_engine

        create_cached_engine.cache_clear()  # the DB file is deleted and recreated
        with _quiet():
            messagebus.handle(self.zdir, self.db_url, [commands.CreateDBCommand(self.zdir, update_error_file_whitelist=update_whitelist)],
                              should_delete_existing_db=True)

    def reindex(self, paths=None):
        from zorg.domain.messages import commands
        from zorg.service import messagebus

        with _quiet():
            messagebus.handle(self.zdir, self.db_url, [commands.ReindexDBCommand(zettel_dir=self.zdir, paths=[self.zdir / p for p in (paths or [])])])

    # ---- index
    def compile(self, rel: str):
        from zorg.service.compiler import walk_zorg_page

        return walk_zorg_page(self.zdir, Path(rel))

    def index_notes(self) -> list[dict]:
        """Canonical dump of the index through the repo (domain notes), keyed for comparison."""
        from zorg.storage.sql import SQLSession

        out = []
        with SQLSession(self.zdir, self.db_url) as s:
            for n in s.repo.get_notes_by_query(None):
                d = G.observed(n)
                d["page"] = str(n.file_path)
                out.append(d)
        return sorted(out, key=lambda d: (d["page"], d["line"], d["zid"] or ""))

    def raw_rows(self) -> list[tuple]:
        """Independent read of the universe: raw SQLite rows of the note table."""
        db = self.zdir / ".zorg" / "zorg.db"
        con = sqlite3.connect(str(db))
        try:
            cur = con.execute("select zid, page_path, line_no, body, todo_status, todo_priority, create_date, modify_date from note order by page_path, line_no, zid")
            return cur.fetchall()
        finally:
            con.close()

    def compiled_notes(self) -> list[dict]:
        out = []
        for rel in self.files():
            pg = self.compile(rel)
            for n in pg.notes:
                d = G.observed(n)
                d["page"] = rel
                out.append(d)
        return sorted(out, key=lambda d: (d["page"], d["line"], d["zid"] or ""))


def norm_page(d: dict, zdir: Path) -> dict:
    d = dict(d)
    p = d.get("page", "")
    d["page"] = p[len(str(zdir)) + 1:] if p.startswith(str(zdir)) else p
    return d


def diff_index_vs_files(lab: Lab) -> Optional[str]:
    idx = [norm_page(d, lab.zdir) for d in lab.index_notes()]
    comp = [norm_page(d, lab.zdir) for d in lab.compiled_notes()]
    idx.sort(key=lambda d: (d["page"], d["line"], d["zid"] or ""))
    comp.sort(key=lambda d: (d["page"], d["line"], d["zid"] or ""))
    if len(idx) != len(comp):
        return f"index has {len(idx)} notes, recompiled files have {len(comp)}"
    for a, b in zip(idx, comp):
        for k in ("page", "line", "zid", "kind", "priority", "body", "create", "modify", "tags", "links", "props"):
            if a[k] != b[k]:
                return f"{a['page']}:{a['line']} {k}: index {a[k]!r} != recompiled file {b[k]!r}"
    rows = lab.raw_rows()
    if len(rows) != len(idx):
        return f"raw note table has {len(rows)} rows, repo returns {len(idx)} notes"
    zids = [r[0] for r in rows]
    if len(set(zids)) != len(zids):
        return f"duplicate ZIDs in the note table: {sorted(z for z in zids if zids.count(z) > 1)[:3]}"
    return None
