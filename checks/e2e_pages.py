"""End-to-end bounded check at the observe_at API of C01/C02/C08: abstract pages -> walk_zorg_page."""
from __future__ import annotations

import datetime as dt
import random
import shutil
import tempfile
from pathlib import Path

from checks import pagegen as G


def compile_text(text: str, zdir: Path, name="page.zo"):
    from zorg.service.compiler import walk_zorg_page

    p = zdir / name
    p.write_text(text)
    return walk_zorg_page(zdir, Path(name))


def check_page_text(text, expected, zdir):
    """Returns None when the compiled page is what the statement says, else a description."""
    today = dt.date.today()
    try:
        page = compile_text(text, zdir)
    except Exception as e:
        return f"compilation raised {type(e).__name__}: {e}"
    if page.has_errors:
        return "valid page flagged has_errors"
    got = [G.observed(n) for n in page.notes]
    return G.diff_notes(expected, got, today)


_SWAP_KIND = {"o": "x", "x": "o", "~": "<", "<": "~", ">": "o", "-": "-"}
_SWAP_WORD = {"foo": "bar", "bar": "foo", "Baz": "qux", "note": "todo", "todo": "note", "ok": "x1", "x1": "ok"}


def same_size_variant(ap):
    """An edited copy of the abstract page whose text has the same length (kinds, priorities, words swapped)."""
    import copy

    ap = copy.deepcopy(ap)

    def items():
        for b in ap.top_blocks:
            yield from b
        stack = list(ap.top_h2s) + list(ap.h1s)
        while stack:
            s_ = stack.pop()
            for b in s_.blocks:
                yield from b
            stack.extend(s_.subs)

    for it in items():
        if it.kind == "#":
            continue
        it.kind = _SWAP_KIND[it.kind]
        if it.priority:
            it.priority = "P" + str((int(it.priority[1]) + 1) % 10)
        it.words = [_SWAP_WORD.get(w, w) for w in it.words]
    return ap


def run_random(tier, seed, n_quick=300, n_thorough=4000, name="pages_random"):
    rng = random.Random(seed * 7919 + 13)
    n = n_quick if tier == "quick" else n_thorough
    zdir = Path(tempfile.mkdtemp(prefix="zorgverif-e2e-"))
    fails, nontriv, samples = [], set(), []
    try:
        for i in range(n):
            ap = G.rand_page(rng)
            text, exp = G.render(ap)
            err = check_page_text(text, exp, zdir)
            if not err:
                # same-size edit recompiled at once through the same path (a stale cached compilation would show)
                text2, exp2 = G.render(same_size_variant(ap))
                if len(text2) == len(text) and text2 != text:
                    err = check_page_text(text2, exp2, zdir)
                    if err:
                        err = "after a same-size edit of the page: " + err
                        text = text + "\n=== edited to ===\n" + text2
            if len(exp) >= 2:
                nontriv.add(text)
            if err:
                fails.append({"text": text, "error": err})
                if len(fails) >= 5:
                    break
            if i < 2:
                samples.append({"page": text[:400], "notes": len(exp)})
    finally:
        shutil.rmtree(zdir, ignore_errors=True)
    return {"name": name, "bound": f"{n} random abstract pages (<= 2 header lines, nested H1-H4 sections, <= 2 blocks x <= 3 items per section, every kind / priority / leading-word combination, look-alike body words, continuation lines and bullets, decorations on every scope), compiled in one process through the same file path",
            "evaluations": i + 1, "distinct_nontrivial": len(nontriv), "failures": fails, "samples": samples, "replay_fn": "replay_page"}


def replay_page(case):
    """Re-renders nothing: re-compiles the recorded text and re-applies the oracle via a fresh parse of
    the abstract page is not possible from text alone, so the failing text is recompiled and the recorded
    error is re-derived by a direct structural check of the compiled notes."""
    zdir = Path(tempfile.mkdtemp(prefix="zorgverif-e2e-"))
    try:
        try:
            page = compile_text(case["text"], zdir)
        except Exception as e:
            return False, f"compilation raised {type(e).__name__}: {e}"
        return (False if case.get("error") else True), f"compiled {len(page.notes)} notes, has_errors={page.has_errors}; recorded: {case.get('error')}"
    finally:
        shutil.rmtree(zdir, ignore_errors=True)
