"""C17 plan: `action open` on generated lines against the statement (bounded)."""
import contextlib
import io
import random
import re
from pathlib import Path
from types import SimpleNamespace

from checks import c03 as C03
from checks.zdirlab import Lab

PROPERTY = "C17"
CONTRACTS = ["contracts.c17"]
LEVEL = "exploration"
EXPLANATION = (
    "Contract-based (all inputs, local facts; standard output is a ghost list): _is_local_link, _open_local_link (one SEARCH LID:: message), "
    "_open_zid_link (EDIT of the owner's page + SEARCH, or nothing and exit status 1), _open_link (opener selected by the target's own shape only). "
    "Bounded (the word scan, primary-ZID rule and option selection of run_action_open are not under contract): generated lines (any kind prefix, priority, modify date, primary ZID, 0-4 targets of every kind with surrounding "
    "punctuation) in .zo and .zoq pages are passed to the real run_action_open with every option index; the answers are "
    "checked to be protocol messages only, the target list (PROMPT) to be the targets in line order, option k (and -1) to open "
    "the same thing as a line containing only the k-th target, and page / ZID / ID / RID targets to resolve to the right page."
)
ASSUMPTIONS = ["the index agrees with the files (C05)", "lines without z:: cite keys (not in the statement's vocabulary)"]
TRUSTED = ["SQLAlchemy/SQLite (real stack)", "z3 5.1 / cvc5 1.0.3", "pyvc symbolic interpreter (engine/)"]
PROTO = ("EDIT ", "SEARCH ", "PROMPT ", "ECHO ")


def run(lab, rel, line_no, option):
    from zorg.app.runners._run_action import run_action_open

    cfg = SimpleNamespace(zettel_dir=lab.zdir, zo_path=Path(rel), line_number=line_no, option_idx=option, database_url=lab.db_url, verbose=0,
                          template_pattern_map={}, binary_exts=["pdf", "png", "epub", "jpeg", "xmind"])
    buf = io.StringIO()
    with contextlib.redirect_stdout(buf), contextlib.redirect_stderr(io.StringIO()):
        try:
            rc = run_action_open(cfg)
        except Exception as e:
            return None, f"raised {type(e).__name__}: {str(e)[:150]}"
    return rc, buf.getvalue()


TARGETS = ["[[p2]]", "[[p1#anchor]]", "[[sub/deep]]", "[[reading_list_epub]]", "[[notes/scan_png]]", "[^loc1]", "[#G1]", "[#G2]", "[@R1]", "[@R2]",
           "240105#b2", "240107#c1", "[240101#a1]", "240110#0a3", "[#note_1]", "[#noteX1]", "[@paper_1]", "[#item_9]"]
PLAIN = ["see", "also", "foo", "P5x", "x1", "240101", "word"]
PUNCT = [("", ""), ("(", ")"), ("", ","), ("", "."), ("", "?"), ("(", ");"), ("!", ""), (",", ""), (":", ":"), ("", "("), (";", "!"), (".", "?")]
ID_OWNER = {"G1": "p1.zo", "G2": "p2.zo", "note_1": "ids.zo", "noteX1": "ids2.zo"}
RID_OWNER = {"R1": "p1.zo", "R2": "p2.zo", "paper_1": "ids.zo"}


def expected_single(lab, t):
    """what opening target t alone must print, from the statement"""
    z = str(lab.zdir)
    if t.startswith("[["):
        inner = t[2:-2]
        page, _, anchor = inner.partition("#")
        out = f"EDIT {z}/{page}.zo\n"
        return out + (f"SEARCH LID::{anchor}\n" if anchor else "")
    owner = {"240105#b2": "p2.zo", "240107#c1": "p_3.zo", "240101#a1": "p1.zo", "240110#0a3": "p1.zo"}
    zid = t.strip("[]")
    if zid in owner:
        return f"EDIT {z}/{owner[zid]}\n"  # + a SEARCH line
    if t.startswith("[#"):
        return f"EDIT {z}/{ID_OWNER[t[2:-1]]}\n" if t[2:-1] in ID_OWNER else "ECHO "  # an ID nobody owns is reported, nothing is opened
    if t.startswith("[@"):
        return f"EDIT {z}/{RID_OWNER[t[2:-1]]}\n" if t[2:-1] in RID_OWNER else "ECHO "
    return None


def lines_check(tier, seed):
    rng = random.Random(seed * 59 + 12)
    n = 300 if tier == "quick" else 3000
    fails, samples, nontriv, evals = [], [], 0, 0
    pages = dict(C03.PAGES)
    pages["p1.zo"] = pages["p1.zo"].rstrip("\n") + "\n- 240110#0a3 a note whose ZID has three characters\n\n"
    # IDs / RIDs that differ from each other only at a LIKE wildcard position or in letter case, owned by notes of different pages
    pages["ids.zo"] = "# IDs\n\n- 240111#i1 owner of note_1 ID::note_1\n- 240111#i2 owner of paper_1 RID::paper_1\n\n"
    pages["ids2.zo"] = "# IDs two\n\n- 240111#i3 owner of noteX1 ID::noteX1\n- 240111#i4 owner of NOTE_1 ID::NOTE_1\n- 240111#i5 paperA1 RID::paperA1\n- 240111#i6 itemX9 ID::itemX9\n\n"
    with Lab() as lab:
        for rel, t in pages.items():
            lab.write(rel, t)
        lab.create()
        for i in range(n):
            kind = rng.choice(["-", "o", "x", "~", "<", ">"])
            pre = [kind] + ([f"P{rng.randint(0, 9)}"] if kind != "-" and rng.random() < 0.5 else []) + (["240102"] if rng.random() < 0.3 else [])
            primary = rng.choice(["240103#zz", "240103#zz", "240103#zz1", None])
            is_zoq = rng.random() < 0.25
            words, targets = [], []
            for _ in range(rng.randint(0, 4)):
                if rng.random() < 0.6:
                    t = rng.choice(TARGETS)
                    a, b = rng.choice(PUNCT)
                    words.append(a + t + b)
                    targets.append(t.strip("[]") if re.fullmatch(r"\[?[0-9]{6}#\w{2,3}\]?", t) else t)
                else:
                    words.append(rng.choice(PLAIN))
            body = ([primary] if primary else ["first"]) + words
            if is_zoq and primary:
                targets = [primary] + targets  # in .zoq pages every ZID is a target
            line = " ".join(pre + body)
            rel = "lines.zoq" if is_zoq else "lines.zo"
            lab.write(rel, "# Lines\n\n" + line + "\n" + "".join(f"- solo {t}\n" for t in TARGETS) + "\n")
            solo_line = {t: 4 + k for k, t in enumerate(TARGETS)}
            rc, out = run(lab, rel, 3, None)
            evals += 1
            nontriv += len(targets) >= 2
            case = {"line": line, "zoq": is_zoq, "targets": targets}
            if rc is None:
                fails.append({**case, "error": out})
                continue
            bad = [ln for ln in out.split("\n") if ln and not ln.startswith(PROTO)]
            if bad:
                fails.append({**case, "error": f"non-protocol output {bad[:2]}"})
                continue
            if len(targets) == 0:
                if not out.startswith("ECHO "):
                    fails.append({**case, "error": f"no target on the line but answered {out[:80]!r}"})
            elif len(targets) >= 2:
                if out.strip() != "PROMPT " + " ".join(targets):
                    fails.append({**case, "error": f"expected 'PROMPT {' '.join(targets)}', answered {out.strip()[:160]!r}"})
                    continue
                for k in list(range(1, len(targets) + 1)) + [-1]:
                    t = targets[k - 1] if k > 0 else targets[-1]
                    rc_k, out_k = run(lab, rel, 3, k)
                    key = t if t in solo_line else "[" + t + "]" if "[" + t + "]" in solo_line else None
                    if key is None:
                        continue
                    rc_s, out_s = run(lab, rel, solo_line[key], None)
                    evals += 1
                    if (rc_k, out_k) != (rc_s, out_s):
                        fails.append({**case, "error": f"option {k} answered {out_k[:100]!r} (rc {rc_k}); a line with only {t} answers {out_s[:100]!r} (rc {rc_s})"})
                        break
            else:
                exp = expected_single(lab, targets[0])
                if exp is not None and not out.startswith(exp):
                    fails.append({**case, "error": f"single target {targets[0]}: expected output starting with {exp!r}, answered {out[:120]!r}"})
            if i < 2:
                samples.append(case)
    return {"name": "lines", "bound": f"{n} generated lines (kind, priority, modify date, 2- or 3-character primary ZID or none, 0-4 words of which targets of 18 kinds (incl. IDs differing only at a wildcard position or in case) with 12 punctuation wrappings (before and after), .zo and .zoq pages) x every option index",
            "evaluations": evals, "distinct_nontrivial": nontriv, "failures": fails, "samples": samples, "replay_fn": "replay_line"}


def replay_line(case):
    return False, "recorded: " + case.get("error", "")


BOUNDED = [lines_check]
