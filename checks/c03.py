"""C03 plan: WHERE filters on a real SQLite index vs an evaluator written from the statement (bounded)."""
import datetime as dt
import fnmatch
import random
import re

from checks.zdirlab import Lab, norm_page

PROPERTY = "C03"
CONTRACTS = ["contracts.c03"]
LEVEL = "exploration"
EXPLANATION = (
    "Contract-based (bounded-symbolic): _escape_like - through which every text and file filter value reaches LIKE - is verified "
    "for every value of at most 3 / 5 symbolic characters: decoding the result under the LIKE ... ESCAPE rules gives back the "
    "value and no character of it acts as a wildcard ('every character taken literally'). "
    "Bounded: filter trees built directly as domain objects (every atom kind, negation, nesting, literal characters including "
    "% _ and backslash; all pairs of representative atoms in one AND group and as two alternatives) are run through "
    "SQLRepo.get_notes_by_query on a real SQLite index built from fixture pages, and the returned ZID sets are compared with an "
    "evaluator written clause by clause from the statement over the independently read universe (raw rows + recompiled files). "
    "The translation of the filter tree to SQL is not under contract (no SQL term algebra was built)."
)
ASSUMPTIONS = ["integer comparisons are only checked against numeric stored values (the statement does not pin the other case)"]
TRUSTED = ["z3 5.1 / cvc5 1.0.3", "pyvc symbolic interpreter (engine/)", "SQLAlchemy / SQLite (real stack)", "the index agrees with the files (C05)"]

PAGES = {
    "p1.zo": "# Page one #shared k0::page\n\n- 240101#a1 Alpha note +proj1 #work [[p2]] due::2024-01-05 n::5 ID::G1\n"
             "o P1 240101#a2 beta Foo_Bar 100% done @home %bob [[p2#anchor]] due::2024-02-01 n::12 s::abc\n"
             "x P4 240102#a3 gamma foo_bar under_score +proj1 +proj2 [#G2] n::7 RID::R1\n"
             "~ 240103#a4 delta FooXBar back\\slash [@R2] [240105#b2] s::abd\n"
             "< P9 240104#a5 epsilon fooxbar 50% [[pX3]] due::2023-12-31\n\n",
    "p2.zo": "# Page two\n\n- 240105#b1 zeta note links [[p1]] [#G1] ID::G2 n::5\n"
             "> P2 240105#b2 eta todo [[p_3]] [@R1] RID::R2 @home @desk\n"
             "o 240106#b3 theta nothing here s::Abc\n\n",
    "p_3.zo": "# Page three\n\n- 240107#c1 iota in p_3 [240101#a1] #work #shared %bob %al\n\n",
    "pX3.zo": "# Page X\n\n- 240108#d1 kappa in pX3 [[p1#sec]] +proj2 n::5\n\n",
    "sub/deep.zo": "# Deep\n\n- 240109#e1 lambda deep [[sub/deep]] %bob due::2024-01-05\n\n",
}


def universe(lab):
    notes = [norm_page(d, lab.zdir) for d in lab.index_notes()]
    return notes


def _date(v):
    try:
        return dt.date.fromisoformat(v)
    except Exception:
        return None


def sat_or(of, n, U):
    return any(sat_and(af, n, U) for af in of.and_filters)


def sat_and(af, n, U):
    from zorg.domain.types import DescOperator, NoteType, PropertyOperator as PO, PropertyValueType as PT

    if af.allowed_note_types and NoteType[n["kind"]] not in af.allowed_note_types:
        return False
    if af.priorities and n["priority"] not in af.priorities:
        return False
    for kind, vals in (("areas", af.areas), ("contexts", af.contexts), ("people", af.people), ("projects", af.projects)):
        for v in vals:
            if v.startswith("-"):
                if v[1:] in n["tags"][kind]:
                    return False
            elif v not in n["tags"][kind]:
                return False
    for rngs, key in ((af.create_date_ranges, "create"), (af.modify_date_ranges, "modify")):
        for r in rngs:
            if not (r.start <= n[key] <= (r.end or r.start)):
                return False
    for pf in af.property_filters:
        has = pf.key in n["props"]
        if pf.op == PO.EXISTS:
            if has == pf.negated:
                return False
            continue
        if not has:
            return False
        sv = n["props"][pf.key]
        if pf.value_type == PT.DATE:
            from zorg.shared import dates as zdt

            a, b = _date(sv), zdt.from_date_spec(pf.value)
            if a is None:
                return False
        elif pf.value_type == PT.INTEGER:
            if not re.fullmatch(r"-?[0-9]+", sv):
                return None  # not pinned by the statement
            a, b = int(sv), int(pf.value)
        else:
            a, b = sv, pf.value
        res = {PO.EQ: a == b, PO.LT: a < b, PO.LE: a <= b, PO.GT: a > b, PO.GE: a >= b}[pf.op]
        if res == pf.negated:
            return False
    for df in af.desc_filters:
        cs = df.case_sensitive if df.case_sensitive is not None else (df.value != df.value.lower())
        inside = (df.value in n["body"]) if cs else (df.value.lower() in n["body"].lower())
        if inside != (df.op == DescOperator.CONTAINS):
            return False
    for ff in af.file_filters:
        m = fnmatch.fnmatchcase(n["page"], _glob_literal(ff.path_glob))
        if m == ff.negated:
            return False
    for lf in af.link_filters:
        page = lf.link + ".zo"
        in_page = [m for m in U if m["page"] == page]
        targets = {lf.link} | {"global:" + m["props"]["ID"] for m in in_page if "ID" in m["props"]} | \
                  {"ref:" + m["props"]["RID"] for m in in_page if "RID" in m["props"]} | {"zid:" + m["zid"] for m in in_page}
        hit = any(l in targets or l.startswith(lf.link + "#") for l in n["links"])
        if hit == lf.negated:
            return False
    for of in af.or_filters:
        r = sat_or(of, n, U)
        if r is None:
            return None
        if not r:
            return False
    return True


def _glob_literal(g):
    """only '*' is a wildcard in f= globs"""
    return "".join("*" if c == "*" else "[" + c + "]" if c in "[]?" else c for c in g)


def rand_and(rng, depth=0):
    from zorg.domain.models import WhereAndFilter, WhereOrFilter
    from zorg.domain.models._query import DateRange, DescFilter, FileFilter, LinkFilter, PropertyFilter
    from zorg.domain.types import DescOperator, NoteType, PropertyOperator as PO, PropertyValueType as PT

    af = WhereAndFilter()
    for _ in range(rng.randint(1, 3)):
        k = rng.choice(["type", "prio", "tag", "tag", "cdate", "mdate", "prop", "prop", "desc", "desc", "file", "link", "link", "sub"])
        neg = rng.random() < 0.35
        if k == "type":
            af.allowed_note_types |= set(rng.sample(list(NoteType), rng.randint(1, 3)))
        elif k == "prio":
            lo = rng.randint(0, 9)
            af.priorities |= {f"P{i}" for i in range(lo, rng.randint(lo, 9) + 1)}
        elif k == "tag":
            kind, vals = rng.choice([("areas", ["work", "shared", "nope"]), ("contexts", ["home", "desk", "x"]), ("people", ["bob", "al"]), ("projects", ["proj1", "proj2", "p9"])])
            getattr(af, kind).add(("-" if neg else "") + rng.choice(vals))
        elif k in ("cdate", "mdate"):
            s = dt.date(2024, 1, rng.randint(1, 9))
            r = DateRange(s, rng.choice([None, s + dt.timedelta(days=rng.randint(0, 5))]))
            (af.create_date_ranges if k == "cdate" else af.modify_date_ranges).add(r)
        elif k == "prop":
            key = rng.choice(["due", "n", "s", "ID", "zz", "k0"])
            op = rng.choice(list(PO))
            if op == PO.EXISTS:
                af.property_filters.add(PropertyFilter(key, negated=neg))
            elif key == "due":
                af.property_filters.add(PropertyFilter(key, rng.choice(["2024-01-05", "240201", "2023-12-31"]), op, PT.DATE, neg))
            elif key == "n":
                af.property_filters.add(PropertyFilter(key, rng.choice(["5", "7", "12", "6"]), op, PT.INTEGER, neg))
            else:
                af.property_filters.add(PropertyFilter(key, rng.choice(["abc", "abd", "Abc", "G1", "page"]), op, PT.STRING, neg))
        elif k == "desc":
            v = rng.choice(["note", "foo", "Foo", "Foo_Bar", "foo_bar", "fooxbar", "under_score", "100%", "0% d", "%", "back\\slash", "\\", "ZETA", "o_b", "alpha note"])
            af.desc_filters.add(DescFilter(v, rng.choice([None, None, True, False]), DescOperator.NOT_CONTAINS if neg else DescOperator.CONTAINS))
        elif k == "file":
            af.file_filters.add(FileFilter(rng.choice(["p1.zo", "p*", "*3.zo", "p_3.zo", "p_*", "sub/*", "*deep*", "*.zo", "q*"]), neg))
        elif k == "link":
            af.link_filters.add(LinkFilter(rng.choice(["p1", "p2", "p_3", "pX3", "sub/deep", "nowhere"]), neg))
        elif k == "sub" and depth < 2:
            af.or_filters.append(WhereOrFilter([rand_and(rng, depth + 1) for _ in range(rng.randint(1, 2))]))
    if af == WhereAndFilter():
        # an empty group is not an expression of the query language (`()` does not parse): every group holds an atom
        af.areas.add(rng.choice(["work", "shared", "-work"]))
    return af


def atom_pool():
    """One representative atom per (kind, value, polarity): every pair of them is put into one AND group (2-way coverage)."""
    from zorg.domain.models._query import DateRange, DescFilter, FileFilter, LinkFilter, PropertyFilter
    from zorg.domain.types import DescOperator, NoteType, PropertyOperator as PO, PropertyValueType as PT

    pool = []
    for kind, vals in (("areas", ["work", "shared"]), ("contexts", ["home", "desk"]), ("people", ["bob", "al"]), ("projects", ["proj1", "proj2"])):
        for v in vals:
            for neg in ("", "-"):
                pool.append((f"{kind}:{neg}{v}", lambda af, kind=kind, v=v, neg=neg: getattr(af, kind).add(neg + v)))
    for t in (NoteType.BASIC, NoteType.OPEN_TODO):
        pool.append((f"type:{t.name}", lambda af, t=t: af.allowed_note_types.add(t)))
    pool.append(("prio:P1-4", lambda af: af.priorities.update({"P1", "P2", "P3", "P4"})))
    for key, val, op, ty in (("n", "5", PO.EQ, PT.INTEGER), ("n", "7", PO.GE, PT.INTEGER), ("due", "2024-01-05", PO.LE, PT.DATE), ("s", "abc", PO.EQ, PT.STRING)):
        for neg in (False, True):
            pool.append((f"prop:{key}{op.name}{val}:{neg}", lambda af, key=key, val=val, op=op, ty=ty, neg=neg: af.property_filters.add(PropertyFilter(key, val, op, ty, neg))))
    for key in ("due", "ID"):
        for neg in (False, True):
            pool.append((f"exists:{key}:{neg}", lambda af, key=key, neg=neg: af.property_filters.add(PropertyFilter(key, negated=neg))))
    for v in ("note", "foo_bar", "Foo_Bar", "100%", "back\\slash"):
        for neg in (False, True):
            pool.append((f"desc:{v}:{neg}", lambda af, v=v, neg=neg: af.desc_filters.add(DescFilter(v, None, DescOperator.NOT_CONTAINS if neg else DescOperator.CONTAINS))))
    for g in ("p*", "p_3.zo", "sub/*"):
        for neg in (False, True):
            pool.append((f"file:{g}:{neg}", lambda af, g=g, neg=neg: af.file_filters.add(FileFilter(g, neg))))
    for l in ("p1", "p2", "p_3"):
        for neg in (False, True):
            pool.append((f"link:{l}:{neg}", lambda af, l=l, neg=neg: af.link_filters.add(LinkFilter(l, neg))))
    for d in (dt.date(2024, 1, 2), dt.date(2024, 1, 5)):
        pool.append((f"cdate:{d}", lambda af, d=d: af.create_date_ranges.add(DateRange(d, d + dt.timedelta(days=3)))))
    return pool


def describe(of):
    return repr(of)[:600]


def classify(of):
    """Which known-finding classes does the filter tree touch?"""
    tags = set()

    def walk_and(af):
        for df in af.desc_filters:
            cs = df.case_sensitive if df.case_sensitive is not None else (df.value != df.value.lower())
            if "_" in df.value and cs:
                tags.add("F7")
            if "%" in df.value or "\\" in df.value:
                tags.add("F20")
            if "_" in df.value and not cs:
                pass
        for ff in af.file_filters:
            if "_" in ff.path_glob or "%" in ff.path_glob:
                tags.add("F8")
        for lf in af.link_filters:
            if lf.negated:
                tags.add("F6")
        for of_ in af.or_filters:
            for a in of_.and_filters:
                walk_and(a)

    for a in of.and_filters:
        walk_and(a)
    return tags


def filters(tier, seed):
    from zorg.domain.models import WhereOrFilter
    from zorg.storage.sql import SQLSession

    rng = random.Random(seed * 13 + 1)
    n = 250 if tier == "quick" else 4000
    fails, samples, nontriv = [], [], set()
    with Lab() as lab:
        for rel, t in PAGES.items():
            lab.write(rel, t)
        lab.create()
        U = universe(lab)
        all_z = {m["zid"] for m in U}
        with SQLSession(lab.zdir, lab.db_url) as s:
            for i in range(n):
                of = WhereOrFilter([rand_and(rng) for _ in range(rng.randint(1, 2))])
                want, undefined = set(), False
                for m in U:
                    r = sat_or(of, m, U)
                    if r is None:
                        undefined = True
                        break
                    if r:
                        want.add(m["zid"])
                if undefined:
                    continue
                try:
                    got = {x.zid for x in s.repo.get_notes_by_query(of)}
                except Exception as e:
                    fails.append({"filter": describe(of), "error": f"query raised {type(e).__name__}: {str(e)[:200]}", "classes": sorted(classify(of))})
                    continue
                if 0 < len(want) < len(all_z):
                    nontriv.add(describe(of))
                if got != want:
                    fails.append({"filter": describe(of), "error": f"returned {sorted(got)} expected {sorted(want)}", "classes": sorted(classify(of))})
                if i < 2:
                    samples.append({"filter": describe(of), "result": sorted(want)})
            # every pair of representative atoms in one AND group, and each pair as two alternatives
            from zorg.domain.models import WhereAndFilter

            pool = atom_pool()
            npairs = 0
            for ia, (na, fa) in enumerate(pool):
                for nb, fb in pool[ia:]:
                    for shape in ("and", "or"):
                        if shape == "and":
                            af = WhereAndFilter()
                            fa(af)
                            fb(af)
                            of = WhereOrFilter([af])
                        else:
                            a1, a2 = WhereAndFilter(), WhereAndFilter()
                            fa(a1)
                            fb(a2)
                            of = WhereOrFilter([a1, a2])
                        want = {m["zid"] for m in U if sat_or(of, m, U)}
                        npairs += 1
                        try:
                            got = {x.zid for x in s.repo.get_notes_by_query(of)}
                        except Exception as e:
                            fails.append({"filter": f"{na} {shape} {nb}", "error": f"query raised {type(e).__name__}: {str(e)[:200]}", "classes": sorted(classify(of))})
                            continue
                        if 0 < len(want) < len(all_z):
                            nontriv.add(f"{na} {shape} {nb}")
                        if got != want:
                            fails.append({"filter": f"{na} {shape} {nb}: " + describe(of), "error": f"returned {sorted(got)} expected {sorted(want)}", "classes": sorted(classify(of))})
            n += npairs
    return {"name": "filters_on_sqlite", "bound": f"all pairs of {len(atom_pool())} representative atoms (as one AND group and as two alternatives) + random filter trees ({n} queries in all; <= 3 atoms per group, nesting <= 2, all atom kinds, negation, literals with % _ \\ and case variants) on a fixture index of 5 pages / 11 notes incl. page names differing in one character",
            "evaluations": n, "distinct_nontrivial": len(nontriv), "failures": fails, "samples": samples, "replay_fn": "replay_filter"}


def replay_filter(case):
    return False, "filter objects are not serialised; recorded: " + case.get("error", "") + " | " + case.get("filter", "")


BOUNDED = [filters]
