"""C18 plan."""
import datetime as dt
import random
from pathlib import Path

PROPERTY = "C18"
CONTRACTS = ["contracts.c18"]
LEVEL = "other"
EXPLANATION = (
    "expand_file_group_paths and _paths_from_file_group are verified against the recursive spec flat/flat_group "
    "(written from the statement) by modular recursion: each against its own definition with the other's spec "
    "opaque; the homomorphism lemma over the same definitions; _process_zo_paths (the @default rule) for all inputs. "
    "The list-walking obligations are bounded-symbolic (list lengths <= 2 quick / 3 thorough, all contents, all maps); "
    "a CPython differential runs the real functions against the natively executed spec on random acyclic maps."
)
ASSUMPTIONS = [
    "the group map is acyclic (hypothesis of the property; makes the mutual definition of flat/flat_group well-founded)",
    "pathlib.Path(s) is identified with the string s (arguments are already-normalised POSIX paths)",
    "str.format is a function of the template and its keyword arguments (assumed builtin)",
    "datetime.now() is one constant TODAY for the whole call",
]
TRUSTED = ["z3 5.1 / cvc5 1.0.3", "pyvc symbolic interpreter (engine/)"]


def _rand_map(rng, n_groups, max_members):
    names = [f"g{i}" for i in range(n_groups)]
    gmap = {}
    for i, nm in enumerate(names):
        members = []
        for _ in range(rng.randint(0, max_members)):
            k = rng.random()
            if k < 0.35 and i + 1 < n_groups:
                members.append("@" + rng.choice(names[i + 1:]))  # only later groups: acyclic
            elif k < 0.6:
                members.append(rng.choice(["log/{yyyymmdd[0]}.zo", "d/{days[6]:%Y-%m-%d}.zo", "{yyyymmdd[3]}_{yyyymmdd[6]}.zo"]))
            else:
                members.append(rng.choice(["a.zo", "b/c.zo", "x y.zo", "z.zo"]))
        gmap[nm] = members
    return gmap


def differential(tier, seed):
    from contracts import c18
    from zorg.service.file_groups import expand_file_group_paths

    from freezegun import freeze_time

    rng = random.Random(seed)
    n = 400 if tier == "quick" else 4000
    fails, nontrivial, samples = [], set(), []
    # the calendar day advances during the run ("on any day"): consecutive cases run on different frozen days
    days = [dt.date(2024, 2, 29), dt.date(2024, 3, 1), dt.date(2024, 3, 22), dt.date(2025, 1, 3), dt.date(2023, 12, 31)]
    for i in range(n):
        today = days[i % len(days)]
        with freeze_time(today.isoformat() + " 12:00:00"):
            _one_case(rng, today, fails, nontrivial, samples)
    return {"name": "expand_vs_spec", "bound": f"{n} random acyclic group maps (<= 5 groups, <= 4 members, nesting, shared sub-groups, date patterns) x argument lists <= 5, the frozen calendar day changing between consecutive cases; real expand_file_group_paths vs natively executed spec flat()",
            "evaluations": n, "distinct_nontrivial": len(nontrivial), "failures": fails, "samples": samples, "replay_fn": "replay_case"}


def _one_case(rng, today, fails, nontrivial, samples):
    for _ in range(1):
        gmap = _rand_map(rng, rng.randint(1, 5), rng.randint(0, 4))
        args = []
        for _ in range(rng.randint(0, 5)):
            args.append(rng.choice(["@" + g for g in gmap] + ["p.zo", "q/r.zo", "@g0"]))
        case = {"args": args, "gmap": gmap, "day": today.isoformat()}
        ok, obs = replay_case(case, today)
        exp = obs.get("expected")
        if exp is not None and any(a.startswith("@") for a in args) and len(exp) > 1:
            nontrivial.add(repr((args, sorted(gmap.items()))))
        if not ok:
            fails.append(case)
        if len(samples) < 3:
            samples.append({"args": args, "gmap": gmap, "expanded": [str(p) for p in (exp or [])][:8]})


def replay_case(case, today=None):
    from contracts import c18
    from zorg.service.file_groups import expand_file_group_paths

    ret_dict = today is not None
    if today is None:
        from freezegun import freeze_time

        day = dt.date.fromisoformat(case.get("day", dt.date.today().isoformat()))
        # a stale cache only shows after a previous expansion on another day in the same process
        with freeze_time("2020-01-01 12:00:00"):
            try:
                expand_file_group_paths([Path(a) for a in case["args"]], file_group_map=case["gmap"])
            except Exception:
                pass
        with freeze_time(day.isoformat() + " 12:00:00"):
            return replay_case(case, day)[0], "see case"
    args, gmap = case["args"], case["gmap"]
    try:
        exp = c18.flat([Path(a) for a in args], gmap, today)
    except KeyError:
        exp = None  # unresolved group: the real function must raise KeyError too
    try:
        got = expand_file_group_paths([Path(a) for a in args], file_group_map=gmap)
        k = len(args) // 2
        homo = expand_file_group_paths([Path(a) for a in args[:k]], file_group_map=gmap) + expand_file_group_paths([Path(a) for a in args[k:]], file_group_map=gmap)
        ok = exp is not None and got == exp and homo == got
    except KeyError as e:
        got, ok = f"KeyError {e}", exp is None
    except Exception as e:  # any other exception of the real code is a failure of the property
        got, ok = f"{type(e).__name__}: {e}", False
    res = {"expected": exp, "got": got}
    return (ok, res) if ret_dict else (ok, str(res)[:600])


def cli_default(tier, seed):
    """clack_parser: a leading @group argument means `edit` (native, exhaustive over a small argv family)."""
    from clack import clack_envvars_set

    from zorg.app.config import EditConfig, TemplateRenderConfig, clack_parser

    fails, n, nontriv = [], 0, 0
    for opts in ([], ["-v"], ["-v", "-v"]):
        for first in ["@foo", "@default", "@a_b"]:
            for rest in ([], ["x.zo"], ["@bar", "y.zo"]):
                argv = [""] + opts + [first] + rest
                with clack_envvars_set("zorg", [EditConfig, TemplateRenderConfig]):
                    kw = clack_parser(argv)
                n += 1
                nontriv += 1
                if kw.get("command") != "edit" or kw.get("zo_paths") != [Path(first)] + [Path(r) for r in rest]:
                    fails.append({"argv": argv, "got": {k: str(v) for k, v in kw.items()}})
    return {"name": "cli_group_means_edit", "bound": "argv = options x leading @group x 0-2 further paths (27 cases), real clack_parser", "evaluations": n,
            "distinct_nontrivial": nontriv, "failures": fails, "samples": [{"argv": ["", "@foo", "x.zo"]}], "replay_fn": "replay_cli"}


def replay_cli(case):
    from clack import clack_envvars_set

    from zorg.app.config import EditConfig, TemplateRenderConfig, clack_parser

    with clack_envvars_set("zorg", [EditConfig, TemplateRenderConfig]):
        kw = clack_parser(case["argv"])
    return kw.get("command") == "edit", str(kw)


BOUNDED = [differential, cli_default]
