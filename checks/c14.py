"""C14 plan: `file rename` end to end on generated directories (bounded)."""
import itertools
import random
import re
import shutil
import tempfile
from pathlib import Path
from types import SimpleNamespace

PROPERTY = "C14"
CONTRACTS = ["contracts.c14"]
LEVEL = "other"
EXPLANATION = (
    "Contract-based (all inputs): simplify_fname - which fixes the link name that is retargeted - returns the page's path "
    "relative to the notes directory with exactly a trailing '.zo' removed and every other extension kept (strip_zdir through "
    "an assumed contract). "
    "Bounded: the real run_file_rename is run on generated directories (sub-directories, .zo / .zot / .zoq files, template and "
    "query pages renamed with their own extension) whose contents are built from link texts that are exact, prefix, suffix, "
    "path-extension, stem and anchored variants of the renamed page, and every file is compared byte for byte with a "
    "position-wise retargeting function written from the statement. "
    "The content clause needs replace_all reasoning that both solvers leave undecided (DESIGN.md 2.3), so no contract is "
    "claimed for the replacement loop itself."
)
ASSUMPTIONS = ["contents use well-formed link syntax ([[...]])"]
TRUSTED = ["the file system", "z3 5.1 / cvc5 1.0.3", "pyvc symbolic interpreter (engine/)"]


def retarget(text: str, a: str, b: str) -> str:
    """every [[a]] and [[a#anchor]] becomes [[b]] / [[b#anchor]]; nothing else changes"""
    return re.sub(r"\[\[" + re.escape(a) + r"(?=\]\]|#[^\]\n]*\]\])", "[[" + b, text)


def variants(a: str):
    base = a.split("/")[-1]
    stem = a.rsplit(".", 1)[0] if "." in base else a + ".zo"  # a template's stem names another page (stem.zo); [[a.zo]] is not a link to page a
    return [f"[[{stem}]]", f"[[{stem}#top]]", f"[[{a}]]", f"[[{a}#top]]", f"[[{a}#a/b c]]", f"[[x{a}]]", f"[[{a}x]]", f"[[{a}/sub]]", f"[[dir/{a}]]", f"[[{base}]]" if base != a else "[[zz]]",
            f"[[{a}_old]]", f"[[{a.upper()}]]", f"[ [{a}]]", f"(({a}))", f"[#{a}]", f"{a}", f"[[{a}#]]"]


def check_case(names, a, b, contents: dict, with_ext=False):
    from zorg.app.runners._run_file import run_file_rename

    root = Path(tempfile.mkdtemp(prefix="zorgverif-c14-"))
    try:
        zdir = root / "org"
        for rel, text in contents.items():
            p = zdir / rel
            p.parent.mkdir(parents=True, exist_ok=True)
            p.write_text(text)
        # a name with an extension of its own (template / query page: daily.zot, q.zoq) names that file and is its link name;
        # a bare name is the page NAME.zo
        own_ext = "." in a.split("/")[-1]
        fa, fb = (a, b) if own_ext else (a + ".zo", b + ".zo")
        src = zdir / fa
        if not src.exists():
            src.parent.mkdir(parents=True, exist_ok=True)
            src.write_text(f"# page {a}\n\n- 240101#AA self link [[{a}]]\n")
            contents = dict(contents)
            contents[fa] = src.read_text()
        (zdir / fb).parent.mkdir(parents=True, exist_ok=True)
        # the command line accepts page names with or without the .zo extension
        cfg = SimpleNamespace(zettel_dir=zdir, src_name=a + (".zo" if with_ext and not own_ext else ""), dest_name=b + (".zo" if with_ext and not own_ext else ""))
        try:
            rc = run_file_rename(cfg)
        except Exception as e:
            return f"rename raised {type(e).__name__}: {str(e)[:200]}"
        if rc != 0:
            return f"exit code {rc}"
        if src.exists() or not (zdir / fb).exists():
            return "the file does not live under the new name"
        for rel, text in contents.items():
            rel2 = fb if rel == fa else rel
            got = (zdir / rel2).read_text()
            want = retarget(text, a, b)
            if got != want:
                i = next(k for k in range(min(len(got), len(want)) + 1) if got[k:k + 1] != want[k:k + 1])
                return f"{rel2}: content differs at offset {i}: got ...{got[max(0, i - 20):i + 25]!r} expected ...{want[max(0, i - 20):i + 25]!r}"
        return None
    finally:
        shutil.rmtree(root, ignore_errors=True)


def renames(tier, seed):
    rng = random.Random(seed * 3 + 1)
    n = 400 if tier == "quick" else 4000
    fails, samples, nontriv = [], [], 0
    pairs = [("a", "b"), ("proj", "done/proj"), ("dir/page", "page2"), ("p_1", "p1"), ("x", "x_old"), ("ab", "a"),
             ("todo", "tasks"), ("quiz", "zoo"), ("zoo", "quiz"), ("t/daily.zot", "t/day.zot"), ("zoq/q1.zoq", "zoq/q2.zoq"), ("daily.zot", "day.zot")]
    for i in range(n):
        a, b = rng.choice(pairs)
        contents = {}
        for rel in rng.sample(["n1.zo", "sub/n2.zo", "t/tmpl.zot", "zoq/q.zoq", "deep/er/n3.zo", "nolink.zo"], rng.randint(2, 5)):
            if rel == "nolink.zo":
                contents[rel] = "# nothing\n\n- 240101#BB no links here\n"
                continue
            vs = [rng.choice(variants(a)) for _ in range(rng.randint(1, 5))]
            contents[rel] = "# T " + vs[0] + "\n\n" + "".join(f"- 24010{j}#C{j} see {v} and {rng.choice(variants(a))}\n" for j, v in enumerate(vs)) + "\n"
        with_ext = rng.random() < 0.5
        err = check_case(None, a, b, contents, with_ext)
        nontriv += 1
        if err:
            fails.append({"a": a, "b": b, "contents": contents, "with_ext": with_ext, "error": err})
        if i < 2:
            samples.append({"a": a, "b": b, "files": sorted(contents)})
    return {"name": "renames", "bound": f"{n} generated directories (2-5 files among .zo/.zot/.zoq in sub-directories) x 12 (A, B) pairs (names ending in o / z, names given with and without .zo, template / query pages renamed with their own extension); contents from 17 link-text variants of A (exact, anchors, prefix/suffix/path extensions, case, other bracket forms)",
            "evaluations": n, "distinct_nontrivial": nontriv, "failures": fails, "samples": samples, "replay_fn": "replay_rename"}


def replay_rename(case):
    err = check_case(None, case["a"], case["b"], case["contents"], case.get("with_ext", False))
    return err is None, err or "ok"


BOUNDED = [renames]
