"""Native witnesses of the known findings (each returns True iff the defect is still present)."""
import datetime as dt
import json
import shutil
import tempfile
from pathlib import Path


def _tmp():
    return Path(tempfile.mkdtemp(prefix="zorgverif-"))


def f2_get_next_raises_at_zzz() -> bool:
    from zorg.storage.sql._zid_manager import ZIDManager

    d = _tmp()
    try:
        m = ZIDManager(d)
        (d / ".zorg" / "next_ids.json").write_text(json.dumps({"240101": "zzz"}))
        try:
            return m.get_next(dt.date(2024, 1, 1)) != "240101#zzz"
        except RuntimeError:
            return True
    finally:
        shutil.rmtree(d, ignore_errors=True)


def f5_broken_page_not_flagged() -> bool:
    from zorg.service.compiler import walk_zorg_page

    d = _tmp()
    try:
        (d / "p.zo").write_text("#")
        page = walk_zorg_page(d, Path("p.zo"))
        return not page.has_errors
    finally:
        shutil.rmtree(d, ignore_errors=True)


def _create_and_compare(pages: dict):
    import logging

    logging.disable(logging.CRITICAL)
    from checks import c05

    return c05.check_dir(pages)


def f12_irregular_spacing() -> bool:
    err = _create_and_compare({"a.zo": "# T\n\n-   spaced  out\n"})
    return bool(err) and "body" in err


def f17_zid_before_modify_date() -> bool:
    err = _create_and_compare({"a.zo": "# T 2024-01-05\n\n- 240229 foo\n"})
    return bool(err) and "modify" in err


def f18_mdate_equals_create_date() -> bool:
    import datetime as dt
    import logging
    import random

    logging.disable(logging.CRITICAL)
    from checks import c11

    class R(random.Random):
        def random(self):
            return 0.1  # always the "append a word" edit

    err = c11.run_history({"a.zo": "# T\n\n- 220615 220615#oK bar\n"}, R(1), [dt.date(2024, 3, 1), dt.date(2024, 3, 2)])
    return bool(err) and "body" in err


def _unused_f9_deleted_page_survives() -> bool:
    import logging

    logging.disable(logging.CRITICAL)
    from checks.zdirlab import Lab

    with Lab() as lab:
        lab.write("a.zo", "# A\n\n- 240101#AA keep\n")
        lab.write("b.zo", "# B\n\n- 240101#BB gone\n")
        lab.create()
        (lab.zdir / "b.zo").unlink()
        lab.reindex()
        return any(d["zid"] == "240101#BB" for d in lab.index_notes())


def f11_mentioned_zid() -> bool:
    import logging

    logging.disable(logging.CRITICAL)
    from checks import c10

    pages = dict(c10.DESTS)
    pages.update(c10.MENTION)
    # pick the note 240105#m2 (sorted ZIDs: 200101#d1..d5, 240105#m1, m2, m3)
    err, info = c10.check_move(pages, 6, "notes.zo", None)
    return bool(err) and info.get("zid") == "240105#m2"


def f10_order_none_string_compare() -> bool:
    import logging

    logging.disable(logging.CRITICAL)
    from checks.zdirlab import Lab
    from zorg.service.swog import execute

    with Lab() as lab:
        lab.write("p.zo", "# P\n\n" + "".join(f"- 240110#A{i:x} item {i}\n" for i in range(1, 13)) + "\n")
        lab.create()
        out = execute(lab.zdir, lab.db_url, "S note W - O none")
        lines = [ln for ln in out.split("\n") if ln.startswith("- ")]
        return lines.index("- 240110#Aa item 10") < lines.index("- 240110#A2 item 2")


def f23_kinds_pool_across_reference() -> bool:
    import logging

    logging.disable(logging.CRITICAL)
    from checks import c03, c15
    from checks.zdirlab import Lab
    from zorg.service.swog import execute

    with Lab() as lab:
        for rel, t in c03.PAGES.items():
            lab.write(rel, t)
        lab.create()
        lab.write("zoq/s.zoq", "# W #work o\n")
        a = c15.zids(execute(lab.zdir, lab.db_url, "S note W - {s} G none"))
        b = c15.zids(execute(lab.zdir, lab.db_url, "S note W - (#work o) G none"))
        return a != b
