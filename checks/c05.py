"""C05 plan: first-line rewriting contracts + end-to-end `db create` on generated directories."""
import datetime as dt
import random

from checks import pagegen as G
from checks.zdirlab import Lab, diff_index_vs_files

PROPERTY = "C05"
CONTRACTS = ["contracts.c05", "contracts.c06", "contracts.c07"]
LEVEL = "other"
EXPLANATION = (
    "Contract-based: _pop_line_before_zid and _add_zid_to_line are verified against a specification of the rewritten first "
    "line written from the statement (ZID after the kind/priority prefix, replacing a leading YYYY-MM-DD word), for every "
    "first line of a bounded number of fully symbolic words (bounded-symbolic: reported as bounded). "
    "_update_zo_file - the write-back both handlers use - is verified over the file-system model: the page becomes exactly the old lines with the first line of every note to update passed through the line function (every other line byte-identical), only the page and the hash file change, and only the page's own hash entry is refreshed (pages <= 3 / 4 lines, <= 2 notes, lines / ZIDs / line numbers fully symbolic, line function and value getter uninterpreted; _get_file_hash_path / _write_file_hash_to_disk / _hash_file assumed). "
    "create_database is verified against an abstract index (page name -> content it was compiled from; ORM / compiler / directory "
    "listing as stubs): a fresh index afterwards holds exactly the pages on disk with their current contents, the stored hash map "
    "describes it, no page is written by the command itself, and it refuses exactly when a page has syntax errors and the "
    "whitelist is not being updated (<= 2 pages). "
    "The ZIDs written are well-formed successors (_get_next_id) that dates.is_zid recognises (contracts shared with C07). "
    "The agreement of index and files after `db create` at the level of notes, which notes are ZID-less, and the "
    "idempotence of repeated create/reindex runs are checked end to end on generated directories through the real command "
    "handlers, SQLite and the compiler (bounded)."
)
ASSUMPTIONS = ["A-FS", "the hash file exists when _update_zo_file runs (events are handled after the command wrote it)", "A-ASCII", "str.split(' ') of ' '.join(words) is words when no word contains a space"]
TRUSTED = ["SQLAlchemy/SQLite, antlr4 (end-to-end part runs the real stack)", "z3 5.1 / cvc5 1.0.3", "pyvc symbolic interpreter (engine/)"]


def _unique_zids(ap, rng, used):
    def items():
        for b in ap.top_blocks:
            yield from b
        st = list(ap.top_h2s) + list(ap.h1s)
        while st:
            s = st.pop()
            for b in s.blocks:
                yield from b
            st.extend(s.subs)

    for it in items():
        if it.kind != "#" and it.zid:
            while it.zid in used:
                it.zid = G.rand_zid(rng)
            used.add(it.zid)
        if it.kind != "#" and rng.random() < 0.08:
            it.spacing = "  " if rng.random() < 0.7 else "   "


def _gen_dir(rng):
    used = set()
    pages = {}
    if rng.random() < 0.4:
        # two pages whose paths differ only in a LIKE wildcard position or in letter case
        for name in rng.choice([("e-f.zo", "e_f.zo"), ("A.zo", "a.zo"), ("sub/cXd.zo", "sub/c_d.zo")]):
            ap = G.rand_page(rng)
            _unique_zids(ap, rng, used)
            pages[name] = G.render(ap)[0]
    for i in range(rng.randint(1, 3)):
        ap = G.rand_page(rng)
        _unique_zids(ap, rng, used)
        # names that differ only in a LIKE wildcard position ('_', '%') or in letter case are on purpose
        name = rng.choice(["a.zo", "A.zo", "b.zo", "sub/c.zo", "sub/deep/d.zo", "e_f.zo", "e-f.zo", "eXf.zo", "p%q.zo", "pABq.zo"])
        while name in pages:
            name = "x" + name
        text = G.render(ap)[0]
        if rng.random() < 0.3:
            # ASCII control characters that str.splitlines() treats as line boundaries but the lexer does not
            lines = text.split("\n")
            lines[0] = lines[0] + rng.choice([" \x0c", " \x0b", " \x1c", " \x0c x"])  # in the title line
            text = "\n".join(lines)
        pages[name] = text
    return pages


def check_dir(pages: dict):
    """None when `db create` on the directory satisfies C05, else a description."""
    from contracts import c05

    with Lab() as lab:
        for rel, text in pages.items():
            lab.write(rel, text)
        try:
            lab.create()
        except Exception as e:
            return f"db create raised {type(e).__name__}: {str(e)[:300]}"
        after = lab.files()
        comp = lab.compiled_notes()
        for d in comp:
            if d["zid"] is None:
                return f"{d['page']}:{d['line']} has no ZID in the file after db create"
        err = diff_index_vs_files(lab)
        if err:
            return "after db create: " + err
        for rel, text in pages.items():
            old, new = text.split("\n"), after[rel].split("\n")
            if len(old) != len(new):
                return f"{rel}: number of lines changed from {len(old)} to {len(new)}"
            firsts = {d["line"]: d for d in comp if d["page"] == rel}
            for i, (a, b) in enumerate(zip(old, new), start=1):
                if a == b:
                    continue
                if i not in firsts:
                    return f"{rel}:{i} changed but is not the first line of a note: {a!r} -> {b!r}"
                want = c05.with_zid(firsts[i]["zid"], a.split(" "))
                if b != want:
                    return f"{rel}:{i} rewritten to {b!r}, expected {want!r}"
        snap_files, snap_idx = lab.files(), lab.index_notes()
        try:
            lab.reindex()
            if lab.files() != snap_files or lab.index_notes() != snap_idx:
                return "db reindex after db create changed a file or the index"
            lab.create()
            if lab.files() != snap_files or lab.index_notes() != snap_idx:
                return "a second db create changed a file or the index"
        except Exception as e:
            return f"repeated create/reindex raised {type(e).__name__}: {str(e)[:300]}"
    return None


def is_f12(case) -> bool:
    """Known finding F12: irregular spacing after the prefix - the file keeps the extra spaces, the index body does not."""
    return any(("-  " in ln or "o  " in ln or "x  " in ln or "~  " in ln or "<  " in ln or ">  " in ln or
                any(ln.startswith(f"{k} P{d}  ") for k in "ox~<>" for d in "0123456789"))
               for t in case["pages"].values() for ln in t.split("\n")) and " body: " in case.get("error", "")


def is_f17(case) -> bool:
    """Known finding F17: a ZID-less note whose first word is a YYMMDD modify date gets its ZID *in front of* that date;
    on recompilation the date is then an ordinary word, so the file's modify date differs from the indexed one."""
    import re

    pat = re.compile(r"^(-|[ox~<>]( P[0-9])?) +[0-9]{6} (?![0-9]{6}#)")
    return " modify: " in case.get("error", "") and any(pat.match(ln) for t in case["pages"].values() for ln in t.split("\n"))


def create_agrees(tier, seed):
    rng = random.Random(seed * 31 + 5)
    n = 25 if tier == "quick" else 400
    fails, nontriv, samples = [], 0, []
    for i in range(n):
        pages = _gen_dir(rng)
        err = check_dir(pages)
        nontriv += sum(t.count("\n- ") + t.count("\no ") for t in pages.values()) >= 2
        if err:
            fails.append({"pages": pages, "error": err})
        if i == 0:
            samples.append({"pages": {k: v[:200] for k, v in pages.items()}})
    return {"name": "create_agrees", "bound": f"{n} generated directories (1-3 pages incl. sub-directories, sections, items with and without ZIDs, irregular spacing after the prefix, multi-line items) through the real CreateDBCommand / ReindexDBCommand, SQLite and compiler",
            "evaluations": n, "distinct_nontrivial": nontriv, "failures": fails, "samples": samples, "replay_fn": "replay_dir"}


def replay_dir(case):
    err = check_dir(case["pages"])
    return err is None, err or "ok"


BOUNDED = [create_agrees]
