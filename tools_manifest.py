#!/usr/bin/env python3
"""Regenerates MANIFEST.json from the per-property plans in checks/ (single source of truth)."""
import importlib, json, os, sys
HERE = os.path.dirname(os.path.abspath(__file__))
sys.path.insert(0, HERE)
ALL = [f"C{i:02d}" for i in range(1, 19)]
NA = {
    "C13": "crash-point property over five non-atomic stores and the second run of a command: no per-function contract within reach expresses recoverability after an arbitrary prefix of external effects; proving it on a hand-written model of the stores would be model checking of a model, a different family (DESIGN.md section 8)",
}
LEVEL_TEXT = json.load(open(os.path.join(HERE, "checks", "levels.json")))
checks, na = [], []
for pid in ALL:
    if pid in NA:
        na.append({"property_id": pid, "reason": NA[pid]})
        continue
    path = os.path.join(HERE, "checks", pid.lower() + ".py")
    if not os.path.exists(path) or pid not in LEVEL_TEXT:
        na.append({"property_id": pid, "reason": "not reached yet: no check of this property has been built (see DESIGN.md section 7 for the plan)"})
        continue
    lt = LEVEL_TEXT[pid]
    checks.append({
        "property_id": pid,
        "quick_cmd": f"./check {pid} --tier quick",
        "thorough_cmd": f"./check {pid} --tier thorough",
        "evidence_file": f"/verif/evidence/{pid}.json",
        "replay_cmd_template": "./check --replay {path}",
        "engine": "pyvc",
        "level_claimed": {"category": lt["category"], "text": lt["text"], "design_ref": lt.get("design_ref", "DESIGN.md section 7")},
        "level_note": lt["note"],
        "technique": lt["technique"],
    })
m = {
    "version": 1,
    "setup_cmd": "./setup.sh",
    "hooks": {"guard": "ZORG_VERIF", "enable": "no source hooks: contracts are sidecar files bound to /repo functions by qualified name; checks export ZORG_VERIF=1 but /repo does not read it",
              "baseline_off_cmd": "cd /repo && /venv/bin/python -m pytest -ra -q -p no:cacheprovider --timeout=900 --continue-on-collection-errors",
              "source_commits": [], "add_only": True},
    "engines": [{"name": "pyvc", "path": "/verif/engine", "serves_properties": [c["property_id"] for c in checks],
                 "kind_free_text": "contract-based deductive verification: VC generation from the real Python AST of /repo/src (re-read every run) against sidecar contracts, discharged by z3 (cvc5 on unknown); regular-language lemmas on the generated lexer/parser ATN by automata; bounded stand-ins labelled as such"}],
    "checks": checks,
    "not_applicable": na,
    "notes": "Genuine defects of the unchanged tree are in known_findings.json (KNOWN-FINDING lines, exit 0) or repaired by fix: commits in /repo (listed under `fixed` there).",
}
json.dump(m, open(os.path.join(HERE, "MANIFEST.json"), "w"), indent=1)
print("checks:", [c["property_id"] for c in checks], "n/a:", [n["property_id"] for n in na])
