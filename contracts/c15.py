"""C15 - the two local facts of reference expansion that are within the verifier's reach: a spliced WHERE clause is grouped
exactly when it contains an OR bar, and a reference to a saved query whose page does not exist is reported (None), never
ignored.  The meaning of an expanded query is decided by the bounded tier (real index)."""
from engine.spec import T, contract, fs_exists, fs_unchanged
from contracts import c16  # noqa: F401  (assumed contract of prepend_zdir: result is page_path(zdir, path))
from contracts.c16 import page_path  # noqa: F401

PATH = T.rec("Path", {"s": T.str()})
Q = "zorg.service.swog._saved_queries:"

contract(
    Q + "_group_if_needed", props=["C15"], args={"where_filter": T.str()}, returns=T.str(),
    ensures={
        # only what the statement needs: the clause is spliced unchanged or inside one pair of parentheses, and a clause with
        # an OR bar that is not already enclosed is enclosed.  (Whether conjunctions are wrapped too, or an already enclosed
        # clause is wrapped again, does not matter for the meaning and is left open.)
        "spliced-bare-or-in-one-pair-of-parentheses": "result == where_filter or result == '(' + where_filter + ')'",
        "alternatives-are-grouped": "implies(' | ' in where_filter and not (where_filter.startswith('(') and where_filter.endswith(')')), result == '(' + where_filter + ')')",
    },
)
