"""C15 contracts."""
