"""C10 - note move: file-level contracts over the file-system model.

Files are lists of newline-free lines joined by "\\n" (what read_text().split("\\n") yields); the lists are bounded
(bounded-symbolic), every line is fully symbolic.
"""
import os

from engine.spec import T, contract, forall, fullmatch, fs_exists, fs_only_changed, fs_read, fs_unchanged, implies
from zorg.domain.models import Note
from zorg.storage.file import FileManager

NL = 4 if os.environ.get("VERIF_TIER") != "thorough" else 6
PATH = T.rec("Path", {"s": T.str()})
F = "zorg.storage.file._manager:FileManager."
BOUNDED = f"bounded-symbolic: files of at most {NL} lines and notes of at most 2 lines; every line fully symbolic"


def _file_prelude(interp, loc):
    """the note's page holds 1..NL newline-free lines; the note body has 1..2 lines"""
    import z3
    from engine import models, sym

    ctx = interp.ctx
    lines = sym.TCList(sym.TStr(), 1, NL).fresh(ctx, "line")
    body_lines = sym.TCList(sym.TStr(), 1, 2).fresh(ctx, "bodyline")
    for w in lines + body_lines:
        ctx.assume(z3.Not(z3.Contains(w.t, z3.StringVal("\n"))))
    fm = sym.Rec("FileManager", {"_zdir": PATH.fresh(ctx, "zdir")}, cls=FileManager)
    note = sym.Rec("Note", {"zid": sym.TStr().fresh(ctx, "zid"), "file_path": PATH.fresh(ctx, "file_path"),
                            "line_no": sym.TInt(1, None).fresh(ctx, "line_no"),
                            "body": models.str_method(interp, "\n", "join", [body_lines], {})}, cls=Note)
    loc["self"], loc["note"] = fm, note
    loc["_ghost_lines"], loc["_ghost_body_lines"] = lines, body_lines
    # the file system holds the page with exactly these lines
    from contracts import c16

    g = models.fs_state(interp)
    page = interp.call(interp.wrap_global(c16.page_path), [fm.fields["_zdir"], note.fields["file_path"]], {})
    ps = sym.zstr(page.fields["s"])
    content = models.str_method(interp, "\n", "join", [lines], {})
    g["fs_exists"] = z3.Store(g["fs_exists"], ps, True)
    g["fs_content"] = z3.Store(g["fs_content"], ps, sym.zstr(content))
    loc["_ghost_page"] = page


def own_lines_at(lines, note, body_lines):
    """the index agrees with the file: the note's lines stand at its recorded line number and the first one carries the ZID"""
    k = note.line_no - 1
    return (k + len(body_lines) <= len(lines) and (" " + note.zid + " ") in lines[k]
            and all(lines[k + j].endswith(body_lines[j]) if j == 0 else lines[k + j] == body_lines[j] for j in range(len(body_lines))))


def mentioned_earlier(lines, note):
    """the ZID occurs, surrounded by spaces, on a line before the note's own first line (known finding F11)"""
    return any((" " + note.zid + " ") in lines[j] for j in range(len(lines)) if j < note.line_no - 1)


def without_own_lines(lines, note, body_lines):
    k = note.line_no - 1
    return "\n".join(lines[:k] + lines[k + len(body_lines):])


contract(
    F + "delete_note", props=["C10"], args={}, prelude=_file_prelude, list_bound=NL, bounded_note=BOUNDED,
    requires={"index-agrees-with-file": "own_lines_at(_ghost_lines, note, _ghost_body_lines)",
              "zid-shape": "fullmatch('[0-9]{6}#[0-9A-Za-z]{2,3}', note.zid)"},
    ensures={
        "exactly-the-notes-own-lines-are-removed": "result is None and fs_read(_ghost_page) == without_own_lines(_ghost_lines, note, _ghost_body_lines)",
        "no-other-file-changes": "fs_only_changed(_ghost_page)",
    },
)


# ---- add_note: the note's text takes the place of one blank line; every other line is kept, in order ----
def _dest_prelude(interp, loc):
    import z3
    from engine import models, sym

    ctx = interp.ctx
    lines = sym.TCList(sym.TStr(), 1, NL).fresh(ctx, "line")
    for w in lines:
        ctx.assume(z3.Not(z3.Contains(w.t, z3.StringVal("\n"))))
        ctx.assume(z3.InRe(w.t, z3.Star(z3.Range(z3.StringVal(chr(0)), z3.StringVal(chr(127))))))
    fm = sym.Rec("FileManager", {"_zdir": PATH.fresh(ctx, "zdir")}, cls=FileManager)
    note = sym.Rec("Note", {"body": sym.TStr().fresh(ctx, "body"), "todo_payload": None}, cls=Note)
    page_arg = PATH.fresh(ctx, "page")
    loc["self"], loc["note"], loc["page"] = fm, note, page_arg
    loc["_ghost_lines"] = lines
    from contracts import c16

    g = models.fs_state(interp)
    page = interp.call(interp.wrap_global(c16.page_path), [fm.fields["_zdir"], page_arg], {})
    ps = sym.zstr(page.fields["s"])
    content = models.str_method(interp, "\n", "join", [lines], {})
    if ctx.branch(ctx.fresh("dest_exists", z3.BoolSort()), "destination exists"):
        g["fs_exists"] = z3.Store(g["fs_exists"], ps, True)
        g["fs_content"] = z3.Store(g["fs_content"], ps, sym.zstr(content))
        loc["_ghost_exists"] = True
    else:
        g["fs_exists"] = z3.Store(g["fs_exists"], ps, False)
        loc["_ghost_exists"] = False
    loc["_ghost_page"] = page


def blank(s):
    return s.strip() == ""


def note_text(note):
    return "- " + note.body.strip() + "\n"


def inserted_at(lines, k, text):
    return "\n".join(lines[:k] + text.split("\n") + lines[k + 1:])


contract(
    F + "add_note", props=["C10"], args={}, prelude=_dest_prelude, list_bound=NL + 2, bounded_note=BOUNDED,
    requires={"page-ends-with-a-newline (a page whose last item lacks it is not a valid page)": "_ghost_lines[len(_ghost_lines) - 1] == ''"},
    ensures={
        "missing-destination-is-an-error-and-nothing-is-written": "implies(not _ghost_exists, result is not None and fs_unchanged())",
        "note-replaces-one-blank-line-everything-else-kept": "implies(_ghost_exists, result is None and any(blank(_ghost_lines[k]) and "
                                                             "fs_read(_ghost_page) == inserted_at(_ghost_lines, k, note_text(note)) for k in range(len(_ghost_lines))))",
        "no-other-file-changes": "fs_only_changed(_ghost_page)",
    },
)
