"""C10 - note move: file-level contracts."""
from engine.spec import T, contract, forall, implies
