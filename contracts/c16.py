"""C16 - template initialisation never overwrites existing files (init_from_template over the file-system model).

Path helpers, variable processing and jinja rendering are assumed contracts (uninterpreted functions); the obligations are
about what init_from_template does with them: when it writes, what it writes, and that nothing else changes.
"""
import os

from engine.spec import T, contract, forall, fs_exists, fs_only_changed, fs_read, fs_unchanged, implies, opaque
from zorg.service.templates import ZorgTemplateManager

NP = 2 if os.environ.get("VERIF_TIER") != "thorough" else 3
PATH = T.rec("Path", {"s": T.str()})
VARS = T.map(T.str(), T.str())


@opaque("path")
def page_path(zdir, path):
    """prepend_zdir: the page's path under the notes directory (with .zo when there is no extension)"""
    from zorg.shared import common as c

    return c.prepend_zdir(zdir, path)


@opaque("str", always=True)
def relative(zdir, path):
    """strip_zdir: the path relative to the notes directory"""
    from zorg.shared import common as c

    return c.strip_zdir(zdir, path)


@opaque("str", always=True)
def rendering(template_path, variables):
    """A-JINJA: the rendering is a function of (template, variables)"""
    return ""


@opaque("map")
def processed(variables):
    """process_var_map: date-like values become datetimes, everything else is kept"""
    from zorg.shared import common as c

    return c.process_var_map(variables)


_ASSUMED = dict(props=["C16"], assumed=True)
contract("zorg.shared.common:prepend_zdir", args={"zdir": PATH, "path": PATH}, result_is="page_path(zdir, path)",
         note="ASSUMED: Path.parents / suffix tests on symbolic paths are outside the VC generator; exercised by the bounded tier", **_ASSUMED)
contract("zorg.shared.common:strip_zdir", args={"zdir": PATH, "path": PATH}, result_is="relative(zdir, path)", note="ASSUMED (str.replace)", **_ASSUMED)
contract("zorg.service.templates:ZorgTemplateManager.render", args={"self": T.const(None), "template_path": PATH, "var_map": VARS},
         result_is="rendering(template_path, var_map)", note="ASSUMED A-JINJA", **_ASSUMED)
contract("zorg.shared.common:process_var_map", args={"var_map": VARS}, result_is="processed(var_map)", note="ASSUMED", **_ASSUMED)


def _patterns_prelude(interp, loc):
    """template_pattern_map: an ordered map of 0..NP (pattern, template path) entries; template: None or a path; var_map: None or a map"""
    import z3
    from engine import sym

    ctx = interp.ctx
    n = 0
    while n < NP and not ctx.branch(ctx.fresh(f"npat_is_{n}", z3.BoolSort()), f"patterns=={n}"):
        n += 1
    m = {}
    for i in range(n):
        pat = sym.Rec("Pattern", {"id": ctx.fresh(f"pattern{i}", sym.usort("PatternId"))})
        m[pat] = PATH.fresh(ctx, f"tmpl{i}")
    loc["template_pattern_map"] = m
    loc["_ghost_patterns"] = list(m.items())
    loc["template"] = PATH.fresh(ctx, "template") if ctx.branch(ctx.fresh("has_template", z3.BoolSort()), "template given") else None
    loc["var_map"] = VARS.fresh(ctx, "var_map") if ctx.branch(ctx.fresh("has_var_map", z3.BoolSort()), "var_map given") else None


def target(zdir, new_path):
    return page_path(zdir, new_path)


def vars0(var_map):
    return var_map if var_map is not None else {}


def first_match(pats, rel):
    """index of the first pattern (in map order) that matches the relative path, else -1"""
    for i, (p, t) in enumerate(pats):
        if p.match(rel) is not None:
            return i
    return -1


def expected_text(zdir, pats, rel, template, var_map):
    i = first_match(pats, rel)
    if i >= 0:
        p, t = pats[i]
        return rendering(page_path(zdir, t), processed(vars0(var_map) | p.match(rel).groupdict()))
    return rendering(page_path(zdir, template), processed(vars0(var_map)))


contract(
    "zorg.service.templates:init_from_template", props=["C16"],
    args={"zdir": PATH, "new_path": PATH, "should_overwrite_existing": T.bool()}, prelude=_patterns_prelude,
    bounded_note=f"bounded-symbolic: pattern maps of at most {NP} entries; patterns, paths, variables and file system fully symbolic",
    list_bound=NP,
    ensures={
        "existing-file-untouched-unless-overwrite": "implies(old(fs_exists(target(zdir, new_path))) and not should_overwrite_existing, fs_unchanged())",
        "nothing-written-without-a-match": "implies(first_match(_ghost_patterns, relative(zdir, target(zdir, new_path))) < 0 and template is None, fs_unchanged())",
        "writes-the-rendering-of-the-first-match": "implies((not old(fs_exists(target(zdir, new_path))) or should_overwrite_existing) and "
                                                   "(first_match(_ghost_patterns, relative(zdir, target(zdir, new_path))) >= 0 or template is not None), "
                                                   "fs_exists(target(zdir, new_path)) and fs_read(target(zdir, new_path)) == "
                                                   "expected_text(zdir, _ghost_patterns, relative(zdir, target(zdir, new_path)), template, var_map))",
        "no-other-file-changes": "fs_only_changed(target(zdir, new_path))",
    },
)
