"""C16 contracts."""
