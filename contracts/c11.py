"""C11 - which notes a reindex stamps, and what the stamped note looks like (`_check_for_modified_notes`).

Bounded-symbolic: the old and the new version of the page hold at most NN notes each; every field of every note is fully
symbolic.  `Page.notes` (a flattening property) is used through an assumed contract: the page's notes are the ghost list
the prelude installs."""
import os

from engine.spec import T, contract, implies, plist_append, today, ymd
from zorg.domain.messages import events
from zorg.domain.models import Note, Page, TodoPayload
from zorg.domain.types import NoteType

NN = 2 if os.environ.get("VERIF_TIER") != "thorough" else 3  # old page (two notes may carry the same ZID: the later one is the indexed one)
NEW_MAX = 1  # new page: the loop body depends on one new note and the old map only (two new notes exceed the one-hour pool budget)
PATH = T.rec("Path", {"s": T.str()})
H = "zorg.service.handlers:"
BOUNDED = f"bounded-symbolic: new page with at most {NEW_MAX} and old page with at most {NN} notes; bodies, ZIDs, dates, payloads fully symbolic"

NOTE = T.rec("Note", {
    "body": T.str(), "file_path": PATH, "line_no": T.int(), "create_date": T.date(), "modify_date": T.date(),
    "todo_payload": T.opt(T.rec("TodoPayload", {"priority": T.str(), "status": T.enum(NoteType)}, cls=TodoPayload)), "zid": T.opt(T.str()),
}, cls=Note)


def _pages_prelude(interp, loc):
    """zorg_page: a page with 0..NN notes; old_zorg_page: None or a page with 0..NN notes"""
    from engine import sym

    ctx = interp.ctx

    def page(name, most):
        n = 0
        while n < most and ctx.branch(ctx.fresh(f"{name}.more{n}", __import__("z3").BoolSort()), f"{name} has more than {n} notes"):
            n += 1
        notes = [NOTE.fresh(ctx, f"{name}.note{i}") for i in range(n)]
        return sym.Rec("Page", {"path": PATH.fresh(ctx, f"{name}.path"), "has_errors": False, "events": sym.PList(None, []), "ghost_notes": notes}, cls=Page)

    loc["zdir"] = PATH.fresh(ctx, "zdir")
    loc["zorg_page"] = page("new", NEW_MAX)
    if ctx.branch(ctx.fresh("old.is_none", __import__("z3").BoolSort()), "there is no old page"):
        loc["old_zorg_page"] = None
    else:
        loc["old_zorg_page"] = page("old", NN)
    loc["_ghost_new"] = loc["zorg_page"].fields["ghost_notes"]
    loc["_ghost_old"] = loc["old_zorg_page"].fields["ghost_notes"] if loc["old_zorg_page"] is not None else []


contract("zorg.domain.models._page:Page.notes", props=["C11"], assumed=True, args={"self": T.const(None)}, result_is="self.ghost_notes",
         note="ASSUMED: the page's notes in document order (flatten_h1_notes over the section tree; C01 decides that order)")


def old_match(olds, zid):
    """the old note a ZID refers to: the last one carrying it (None if the ZID is new)"""
    r = None
    for o in olds:
        if o.zid is not None and o.zid == zid:
            r = o
    return r


def differs(n, o):
    """Note equality is body + todo payload"""
    return not (n.body == o.body and n.todo_payload == o.todo_payload)


def stamped(n, olds):
    """edited = carries a ZID that the index knows, differs from the indexed note, not already stamped today"""
    return (n.zid is not None and n.zid != "" and old_match(olds, n.zid) is not None and differs(n, old_match(olds, n.zid))
            and n.modify_date != today())


def is_date_word(w):
    return len(w) == 6 and all(ch.isdigit() for ch in w)


def rest_of_body(n):
    """the body without its modify-date word: the YYMMDD word in front of the ZID, if there is one (statement: 'inserting or
    replacing the YYMMDD date in front of its ZID')"""
    b = n.body.lstrip()
    words = b.split(" ")
    return " ".join(words[1:]) if is_date_word(words[0]) else b


def short(d):
    """YYMMDD (the last six characters of YYYYMMDD; years 1000-9999)"""
    return d.strftime("%Y%m%d")[2:]


contract(
    H + "_check_for_modified_notes", props=["C11"], args={}, prelude=_pages_prelude, list_bound=NN, bounded_note=BOUNDED,
    ensures={
        "exactly-the-edited-notes-are-stamped": "all(_ghost_new[i].modify_date == (today() if old(stamped(_ghost_new[i], _ghost_old)) else old(_ghost_new[i].modify_date)) for i in range(len(_ghost_new)))",
        "stamped-body-gets-todays-date-in-place-of-the-old-one": "all(implies(old(stamped(_ghost_new[i], _ghost_old)), _ghost_new[i].body == short(today()) + ' ' + old(rest_of_body(_ghost_new[i]))) for i in range(len(_ghost_new)))",
        "other-notes-untouched": "all(implies(not old(stamped(_ghost_new[i], _ghost_old)), _ghost_new[i].body == old(_ghost_new[i].body)) for i in range(len(_ghost_new)))",
        "event-iff-something-was-stamped": "(len(zorg_page.events) == 1) == any(old(stamped(_ghost_new[i], _ghost_old)) for i in range(len(_ghost_new)))",
        "event-lists-exactly-the-stamped-notes-in-order": "implies(len(zorg_page.events) == 1, zorg_page.events[0].modified_notes == [_ghost_new[i] for i in range(len(_ghost_new)) if old(stamped(_ghost_new[i], _ghost_old))])",
    },
)
