"""C03 contracts (planned: boolean skeleton of the converter over a free SQL term algebra)."""
