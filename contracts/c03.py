"""C03 - 'every character taken literally': the LIKE pattern built for a text / file filter value denotes that value and
nothing else.  `_escape_like` is verified for every string up to a stated length (bounded-symbolic over the characters):
decoding the pattern under the LIKE ... ESCAPE '\\' rules gives back the value, and no character of the pattern acts as a
wildcard.  The SQL built around it is decided by the bounded tier only (real SQLite)."""
import os

from engine.spec import T, contract

LMAX = 3 if os.environ.get("VERIF_TIER") != "thorough" else 5
Q = "zorg.storage.sql._query_converter:"


def like_decode(p):
    """the literal a LIKE pattern with ESCAPE '\\' denotes when it holds no active wildcard: an escaped character stands for
    itself"""
    out = ""
    i = 0
    while i < len(p):
        if p[i] == "\\" and i + 1 < len(p):
            out = out + p[i + 1]
            i = i + 2
        else:
            out = out + p[i]
            i = i + 1
    return out


def like_is_literal(p):
    """no unescaped % or _ and no dangling escape character"""
    i = 0
    ok = True
    while i < len(p):
        if p[i] == "\\":
            if i + 1 >= len(p):
                ok = False
            i = i + 2
        else:
            if p[i] == "%" or p[i] == "_":
                ok = False
            i = i + 1
    return ok


contract(
    Q + "_escape_like", props=["C03"], args={"value": T.bstr(0, LMAX)}, returns=T.str(),
    bounded_note=f"bounded-symbolic: values of at most {LMAX} characters, every character symbolic",
    ensures={
        "denotes-the-value": "like_decode(result) == value",
        "no-active-wildcard": "like_is_literal(result)",
    },
)
