"""C18 - file-group expansion flattens groups in place and in order.

flat / flat_group are written from the statement: each @group argument is replaced by the
recursively expanded members of that group, in place and in order; ordinary paths are kept;
member patterns get today's and the previous six days' dates.

The two real functions are mutually recursive; each is verified against its own definition
with the other one's spec used opaquely (modular recursion).  Well-foundedness of the mutual
definition is the property's own hypothesis (acyclic group map).
"""
import datetime as dt
from pathlib import Path

from engine.spec import T, contract, lemma, opaque, today


def week(day):
    """today and the previous six days, most recent first"""
    return [day - dt.timedelta(days=i) for i in range(7)]


def fmt(pattern, day):
    days = week(day)
    return pattern.format(days=days, yyyymmdd=[d.strftime("%Y%m%d") for d in days])


@opaque("list:path")
def flat_group(group, gmap, day):
    """Expansion of the member list of one group."""
    out = []
    for f in group:
        if f.startswith("@"):
            out = out + flat([Path(f)], gmap, day)
        else:
            out = out + [Path(fmt(f, day))]
    return out


def flat(paths, gmap, day):
    """Expansion of an argument list."""
    out = []
    for p in paths:
        if str(p).startswith("@"):
            out = out + list(flat_group(gmap[str(p)[1:]], gmap, day))
        else:
            out = out + [Path(p)]
    return out


@opaque("bool")
def group_unresolved(group, gmap):
    """Some (transitively) referenced group name is not a key of the map."""
    return any(f.startswith("@") and unresolved([Path(f)], gmap) for f in group)


def unresolved(paths, gmap):
    return any(
        str(p).startswith("@") and (str(p)[1:] not in gmap or group_unresolved(gmap[str(p)[1:]], gmap)) for p in paths
    )


GMAP = T.map(T.str(), T.listval(T.str()))
import os

BOUND = 3 if os.environ.get("VERIF_TIER") == "thorough" else 2

contract(
    "zorg.service.file_groups:expand_file_group_paths",
    props=["C18"],
    args={"zo_paths": T.clist(T.path(), 0, BOUND), "file_group_map": GMAP},
    returns=T.listval(T.path()),
    list_bound=BOUND,
    ensures={"equals-flat": "result == flat(zo_paths, file_group_map, today())"},
    raises={"KeyError": "unresolved(zo_paths, file_group_map)"},
)

contract(
    "zorg.service.file_groups:_paths_from_file_group",
    props=["C18"],
    args={"file_group": T.listval(T.str()), "file_group_map": GMAP},
    returns=T.listval(T.path()),
    list_bound=BOUND,
    reveal=["flat_group", "group_unresolved"],
    ensures={"equals-flat-group": "result == flat_group(file_group, file_group_map, today())"},
    raises={"KeyError": "group_unresolved(file_group, file_group_map)"},
)

lemma(
    "C18/homomorphism",
    props=["C18"],
    bounded="bounded-symbolic: len(a) <= 2, len(b) <= 1, expansions of groups <= 2; all contents and maps (both tiers: bound 3 exceeds the path budget)",
    vars={"a": T.clist(T.path(), 0, 2), "b": T.clist(T.path(), 0, 1), "gmap": GMAP, "day": T.date()},
    list_bound=2,
    assumes={"resolved": "not unresolved(a + b, gmap)"},
    shows={"concat": "flat(a + b, gmap, day) == flat(a, gmap, day) + flat(b, gmap, day)"},
    note="expanding a concatenation equals concatenating the expansions (bounded-symbolic: lists of length <= 3)",
)


# ---------------------------------------------------------------------------------------------
# CLI defaults: `edit` without paths means @default
# ---------------------------------------------------------------------------------------------
def _kwargs_prelude(interp, loc):
    """kwargs: command is any string; zo_paths is present (any list of paths) or absent."""
    import z3
    from engine import sym

    ctx = interp.ctx
    kw = {"command": sym.TStr().fresh(ctx, "command")}
    if ctx.branch(ctx.fresh("has_zo_paths", z3.BoolSort()), "zo_paths given"):
        kw["zo_paths"] = sym.TCList(sym.TPath(), 0, 2).fresh(ctx, "zo_paths")
    loc["kwargs"] = kw


contract(
    "zorg.app.config:_process_zo_paths",
    props=["C18"],
    args={},
    prelude=_kwargs_prelude,
    ensures={
        "default-group": "('zo_paths' in kwargs and kwargs['zo_paths'] == [Path('@default')]) if old(kwargs['command'] == 'edit' and 'zo_paths' not in kwargs) else True",
        "given-paths-kept": "('zo_paths' in kwargs and kwargs['zo_paths'] == old(kwargs['zo_paths'])) if old('zo_paths' in kwargs) else True",
        "other-commands-untouched": "implies(old(kwargs['command'] != 'edit' and 'zo_paths' not in kwargs), 'zo_paths' not in kwargs)",
        "command-kept": "kwargs['command'] == old(kwargs['command'])",
    },
)
