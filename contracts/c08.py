"""C08 - refusal logic of the index commands (placeholder module: handler contracts live in contracts/c05.py)."""
