"""Shared assumed contracts about the hash file of a notes directory (used by the C05 / C06 / C11 contracts)."""
from engine.spec import T, contract, fs_exists, fs_only_changed, fs_read, json_map, opaque
from contracts import c16  # noqa: F401  (assumed contract of strip_zdir: result is relative(zdir, path))
from contracts.c16 import relative  # noqa: F401

PATH = T.rec("Path", {"s": T.str()})
H = "zorg.service.handlers:"
_PROPS = ["C05", "C06", "C11"]


@opaque("str", always=True)
def sha256_of(content):
    """A-SHA: the digest is a function of the content (collisions are an explicit assumption of the C06 plan)"""
    import hashlib

    return hashlib.sha256(content.encode()).hexdigest()


@opaque("path", always=True)
def hash_file_of(zdir):
    """the notes directory's hash file (.zorg/file_hash.json)"""
    from zorg.service import handlers

    return handlers._get_file_hash_path(zdir)


def _fs_havoc(interp, loc, old):
    """assumed contracts with a file-system effect: the post-state is a fresh file system, constrained by the ensures clauses"""
    import z3
    from engine import models

    g = models.fs_state(interp)
    g["fs_exists"] = interp.ctx.fresh("fs_exists.after", z3.ArraySort(z3.StringSort(), z3.BoolSort()))
    g["fs_content"] = interp.ctx.fresh("fs_content.after", z3.ArraySort(z3.StringSort(), z3.StringSort()))


contract(H + "_hash_file", props=_PROPS, assumed=True, args={"filepath": PATH, "chunk_size": T.int()},
         requires={"the-file-exists": "fs_exists(filepath)"},
         result_is="sha256_of(fs_read(filepath))",
         note="ASSUMED: chunked binary read + hashlib; the digest is a function of the file's content")
contract(H + "_get_file_hash_path", props=_PROPS, assumed=True, args={"zdir": PATH}, result_is="hash_file_of(zdir)",
         note="ASSUMED: zdir/.zorg/file_hash.json (creating the .zorg directory is not a change of any file)")
contract(H + "_write_file_hash_to_disk", props=_PROPS, assumed=True, args={"file_hash_path": PATH, "file_to_hash": T.map(T.str(), T.str())},
         ensures={"stored": "fs_exists(file_hash_path) and json_map(fs_read(file_hash_path)) == file_to_hash", "nothing-else": "fs_only_changed(file_hash_path)"},
         note="ASSUMED: json.dump of the sorted map (A-FS json codec: loads(dump(m)) == m)")
from engine.spec import REGISTRY as _REG  # noqa: E402

_REG[H + "_write_file_hash_to_disk"]["effects"] = _fs_havoc
