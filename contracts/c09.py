"""C09 - selectors, header levels and labels (clauses from the statement)."""
import os

from engine.spec import T, contract, forall, implies
from zorg.domain.models import Note
from zorg.domain.types import NoteType, SelectAggregation, SelectStaticType

E = "zorg.service.swog._executor:"
NB = 2  # both tiers: three notes x two values each exceed the path budget (hours); the selectors treat notes independently
BOUNDED = f"bounded-symbolic: at most {NB} notes with at most 2 values each; all values fully symbolic"

contract(
    E + "_get_header", props=["C09"], args={"level": T.int(), "num_of_levels": T.int()}, returns=T.str(),
    ensures={
        "one-style-per-level": "result == ('\\n' if num_of_levels > 1 and level == 1 else '') + "
                               "('#' * 32 if level == 1 else '=' * 24 if level == 2 else '+' * 16 if level == 3 else '-' * 8)",
    },
    raises={"RuntimeError": "level < 1 or level > 4"},
)
contract(
    "zorg.domain.types:NoteType.to_header_label", props=["C09"], args={"self": T.enum(NoteType)}, returns=T.str(),
    ensures={
        "open-like-kinds-share-a-label": "implies(self in (NoteType.OPEN_TODO, NoteType.BLOCKED_TODO, NoteType.PARENT_TODO), result == '1 | OPEN TODOS')",
        "done": "implies(self == NoteType.CLOSED_TODO, result == '2 | DONE TODOS')",
        "canceled": "implies(self == NoteType.CANCELED_TODO, result == '3 | CANCELED TODOS')",
        "notes": "implies(self == NoteType.BASIC, result == '4 | NOTES')",
    },
)


def NOTE():
    return T.rec("Note", {"areas": T.clist(T.str(), 0, 2), "contexts": T.clist(T.str(), 0, 2), "people": T.clist(T.str(), 0, 2),
                          "projects": T.clist(T.str(), 0, 2), "links": T.clist(T.str(), 0, 2), "file_path": T.path()}, cls=Note)


def NOTE1(field):
    """a note whose only relevant field is `field` (0-2 values)"""
    return T.rec("Note", {field: T.clist(T.str(), 0, 2)}, cls=Note)


def distinct(xs):
    return all(xs[i] != xs[j] for i in range(len(xs)) for j in range(i + 1, len(xs)))


def is_sorted(xs):
    return all(xs[i] <= xs[i + 1] for i in range(len(xs) - 1))


def same_values(result, values):
    return all(v in result for v in values) and all(r in values for r in result)


def first_occurrence_order(result, values):
    """result is `values` with later duplicates removed"""
    out = []
    for v in values:
        if v not in out:
            out = out + [v]
    return result == out


def _attr_prelude(interp, loc):
    import z3

    ctx = interp.ctx
    for a in ("areas", "contexts", "people"):
        if ctx.branch(ctx.fresh("attr_is_" + a, z3.BoolSort()), f"attr=={a}"):
            loc["attr"] = a
            return
    loc["attr"] = "projects"


def _tags_prelude(interp, loc):
    from engine import sym

    _attr_prelude(interp, loc)
    loc["notes"] = sym.TCList(NOTE1(loc["attr"]), 0, NB).fresh(interp.ctx, "notes")


def all_tags(notes, attr):
    return [t for n in notes for t in (n.areas if attr == "areas" else n.contexts if attr == "contexts" else n.people if attr == "people" else n.projects)]


contract(
    E + "_select_tags", props=["C09"], list_bound=3, bounded_note=BOUNDED,
    args={"alpha_sort": T.bool()}, prelude=_tags_prelude,
    ensures={
        "exactly-the-values-carried": "same_values(result, all_tags(notes, attr))",
        "distinct": "distinct(result)",
        "sorted-under-alpha": "implies(alpha_sort, is_sorted(result))",
        "first-occurrence-order-otherwise": "implies(not alpha_sort, first_occurrence_order(result, all_tags(notes, attr)))",
    },
)
contract(
    E + "_select_links", props=["C09"], list_bound=3, bounded_note=BOUNDED,
    args={"notes": T.clist(NOTE1("links"), 0, NB), "alpha_sort": T.bool()},
    ensures={
        "exactly-the-values-carried": "same_values(result, [l for n in notes for l in n.links])",
        "distinct": "distinct(result)",
        "sorted-under-alpha": "implies(alpha_sort, is_sorted(result))",
        "first-occurrence-order-otherwise": "implies(not alpha_sort, first_occurrence_order(result, [l for n in notes for l in n.links]))",
    },
)
