"""C04 - query text is compiled into the structure its syntax denotes: helper contracts.

Clauses are taken from the statement: Pn-m inclusive; date atoms absolute / relative (d, m, y; minus = past);
property atoms carry key, operator, value, negation and a value type inferred from the value; CLI defaults.
"""
from engine.spec import T, contract, fullmatch, implies, lemma, today
from zorg.domain.models._query import DescFilter
from zorg.domain.types import DescOperator, PropertyOperator, PropertyValueType

Q = "zorg.service.compiler._query_compiler:"
D = "zorg.shared.dates:"

# ---- dates -----------------------------------------------------------------------------------------
contract(D + "is_short_date_spec", props=["C04", "C01"], args={"short_date": T.str()}, returns=T.bool(),
         ensures={"six-digits": "result == fullmatch('[0-9]{6}', short_date)"})
contract(D + "is_long_date_spec", props=["C04", "C05"], args={"long_date": T.str()}, returns=T.bool(),
         ensures={"yyyy-mm-dd": "result == fullmatch('[0-9]{4}-[0-9]{2}-[0-9]{2}', long_date)"})
contract(D + "_is_relative_date_spec", props=["C04"], args={"spec": T.str()}, returns=T.bool(),
         ensures={"count-and-unit": "result == fullmatch('-?[0-9]+[dmyDMY]', spec)"})
contract(D + "is_date_spec", props=["C04"], args={"spec": T.str()}, returns=T.bool(),
         ensures={"any-date-form": "result == (fullmatch('[0-9]{6}', spec) or fullmatch('[0-9]{4}-[0-9]{2}-[0-9]{2}', spec) or fullmatch('-?[0-9]+[dmyDMY]', spec))"})


def add_months(d, n):
    """calendar-month addition with end-of-month clamping (dateutil.relativedelta, assumed)"""
    from dateutil.relativedelta import relativedelta

    return d + relativedelta(months=n)


contract(
    D + "_from_relative_date_spec", props=["C04"], timeout_ms=90000,
    args={"spec": T.bstr(2, 5), "start_date": T.date()},
    requires={"token-shape": "rel_token(spec)"},
    returns=T.date(),
    ensures={
        "days": "implies(spec[-1] in 'dD', result == start_date + days(signed_count(spec)))",
        "months": "implies(spec[-1] in 'mM', result == months_from(start_date, signed_count(spec)))",
        "years": "implies(spec[-1] in 'yY', result == months_from(start_date, 12 * signed_count(spec)))",
    },
    bounded_note="relative date tokens of at most 5 characters (counts up to 9999 / -999)",
)


def rel_token(spec):
    """-?[0-9]+[dmyDMY], stated character-wise (the argument is a bounded string)"""
    body = spec[1:-1] if spec[0] == "-" else spec[:-1]
    return len(body) >= 1 and all(c in "0123456789" for c in body) and spec[-1] in "dmyDMY"


def count_of(spec):
    s = spec[1:-1] if spec[0] == "-" else spec[:-1]
    return int(s)


def signed_count(spec):
    """a leading minus means the past"""
    return -count_of(spec) if spec[0] == "-" else count_of(spec)


def days(n):
    import datetime as dt

    return dt.timedelta(days=n)


def months_from(d, n):
    from dateutil.relativedelta import relativedelta

    return d + relativedelta(months=n)


# ---- property atoms ----------------------------------------------------------------------------------
contract(
    Q + "_split_op_value", props=["C04"], args={"op_value": T.str()},
    requires={"operator-is-followed-by-a-value (grammar: prop_op? (id | STAR))":
              "len(op_value) >= 1 and not fullmatch('(<|>|<=|>=)', op_value)"},
    ensures={
        "le": "implies(op_value.startswith('<='), result == (PropertyOperator.LE, op_value[2:]))",
        "lt": "implies(op_value.startswith('<') and not op_value.startswith('<='), result == (PropertyOperator.LT, op_value[1:]))",
        "ge": "implies(op_value.startswith('>='), result == (PropertyOperator.GE, op_value[2:]))",
        "gt": "implies(op_value.startswith('>') and not op_value.startswith('>='), result == (PropertyOperator.GT, op_value[1:]))",
        "exists": "implies(op_value == '*', result == (PropertyOperator.EXISTS, ''))",
        "eq": "implies(not op_value.startswith('<') and not op_value.startswith('>') and op_value != '*', result == (PropertyOperator.EQ, op_value))",
    },
)
contract(
    Q + "_get_value_type", props=["C04"], args={"value": T.str()},
    ensures={
        "date": "implies(date_shaped(value), result == PropertyValueType.DATE)",
        "integer": "implies(not date_shaped(value) and fullmatch('[0-9]*', value), result == PropertyValueType.INTEGER)",
        "string": "implies(not date_shaped(value) and not fullmatch('[0-9]*', value), result == PropertyValueType.STRING)",
    },
)


def date_shaped(v):
    return fullmatch("[0-9]{6}", v) or fullmatch("[0-9]{4}-[0-9]{2}-[0-9]{2}", v) or fullmatch("-?[0-9]+[dmyDMY]", v)


# ---- text atoms ------------------------------------------------------------------------------------------
contract(
    Q + "_get_desc_filter", props=["C04"],
    args={"w": T.rec("ParserCtx", {"text": T.str()})},
    requires={"token-shape: [!][c] quote text quote": "fullmatch(\"!?c?('[^']+'|\\\"[^\\\"]+\\\")\", w.getText())"},
    ensures={
        "negation": "result.op == (DescOperator.NOT_CONTAINS if w.getText().startswith('!') else DescOperator.CONTAINS)",
        "case-flag": "(result.case_sensitive == True) if (w.getText().startswith('c') or w.getText().startswith('!c')) else (result.case_sensitive is None)",
        "value-is-the-quoted-text": "result.value == w.getText()[prefix_len(w.getText()) + 1 : len(w.getText()) - 1]",
    },
)


def prefix_len(t):
    return (1 if t.startswith("!") else 0) + (1 if (t.startswith("c") or t.startswith("!c")) else 0)


# ---- CLI normalisation -------------------------------------------------------------------------------------
def normalised(q):
    return q if q.startswith(("S ", "W ")) else "W " + q


def _query_prelude(interp, loc):
    from engine import sym

    loc["kwargs"] = {"command": "query", "query": sym.TStr().fresh(interp.ctx, "query")}


contract(
    "zorg.app.config:_process_query", props=["C04"], args={}, prelude=_query_prelude,
    ensures={
        "where-prefix": "kwargs['query'].startswith(old(kwargs['query']) if old(kwargs['query']).startswith(('S ', 'W ')) else 'W ' + old(kwargs['query']))",
        "default-group-by-file": "implies(not old(kwargs['query']).startswith('S ') and ' G ' not in normalised(old(kwargs['query'])), kwargs['query'].endswith(' G file'))",
        "default-order-alpha-for-non-note-selects": "implies(old(kwargs['query']).startswith('S ') and not old(kwargs['query']).startswith('S note') and ' O ' not in old(kwargs['query']), kwargs['query'] == old(kwargs['query']) + ' O alpha')",
        "note-selects-untouched": "implies(old(kwargs['query']).startswith('S note'), kwargs['query'] == old(kwargs['query']))",
    },
)


# ---------------------------------------------------------------------------------------------------------------
# ORDER BY / GROUP BY lists: the compiled tuple spells the atoms of the clause, in order (C04: 'every ordering / grouping
# list'; `none` in a GROUP BY list contributes no dimension).  Parse-tree contexts are stubs (A-ANTLR-TREE): an atom context
# answers each alternative's accessor with a sub-context or None; by the grammar exactly one alternative is present.
# ---------------------------------------------------------------------------------------------------------------
from zorg.domain.models import Query as _Query  # noqa: E402
from zorg.domain.types import GroupByType, OrderByType  # noqa: E402
from zorg.service.compiler._query_compiler import ZorgQueryCompiler as _ZQC  # noqa: E402

QC = "zorg.service.compiler._query_compiler:ZorgQueryCompiler."
_LEAF = T.rec("ParserCtx", {"text": T.str()})
G_ALTS = ("AT_SIGN", "HASH", "PERCENT", "PLUS", "file_", "type_", "priority", "section", "none")
O_ALTS = ("alpha", "create", "modify", "priority", "type_", "none")
GATOM = T.rec("ParserCtx", {"text": T.str(), **{"sub:" + k: T.opt(_LEAF) for k in G_ALTS}})
OATOM = T.rec("ParserCtx", {"text": T.str(), **{"sub:" + k: T.opt(_LEAF) for k in O_ALTS}})
QSELF = T.rec("ZorgQueryCompiler", {"zorg_query": T.rec("Query", {"group_by": T.opaque("GroupByTuple"), "order_by": T.opaque("OrderByTuple")}, cls=_Query)}, cls=_ZQC)
G_TABLE = {"AT_SIGN": GroupByType.CONTEXT, "HASH": GroupByType.AREA, "PERCENT": GroupByType.PERSON, "PLUS": GroupByType.PROJECT, "file_": GroupByType.FILE,
           "type_": GroupByType.NOTE_TYPE, "priority": GroupByType.PRIORITY, "section": GroupByType.SECTION}
O_TABLE = {"alpha": OrderByType.ALPHA, "create": OrderByType.CREATE_DATE, "modify": OrderByType.MODIFY_DATE, "priority": OrderByType.PRIORITY,
           "type_": OrderByType.NOTE_TYPE, "none": OrderByType.NONE}


import os  # noqa: E402

NATOMS = 2 if os.environ.get("VERIF_TIER") != "thorough" else 3
LIST_BOUNDED = f"bounded-symbolic: clause lists of 1..{NATOMS} atoms, every atom any alternative of its rule (the loop treats atoms independently)"


def _atoms_prelude(alts, accessor):
    def prelude(interp, loc):
        """ctx.<accessor>() is a list of 1..NATOMS atom contexts; each atom is exactly one alternative of its rule (the token
        `none` spells 'none')"""
        import z3
        from engine import sym

        ctx = interp.ctx
        n = 1
        while n < NATOMS and ctx.branch(ctx.fresh(f"atoms.more{n}", z3.BoolSort()), f"more than {n} atoms"):
            n += 1
        atoms = []
        for i in range(n):
            k = 0
            while k < len(alts) - 1 and not ctx.branch(ctx.fresh(f"atom{i}.is_{alts[k]}", z3.BoolSort()), f"atom {i} is {alts[k]}"):
                k += 1
            f = {"text": "none" if alts[k] == "none" else sym.TStr().fresh(ctx, f"atom{i}.text")}
            for j, a in enumerate(alts):
                f["sub:" + a] = sym.Rec("ParserCtx", {"text": f["text"]}) if j == k else None
            atoms.append(sym.Rec("ParserCtx", f))
        loc["ctx"] = sym.Rec("ParserCtx", {"text": sym.TStr().fresh(ctx, "clause.text"), "sub:" + accessor: atoms})
        loc["self"] = QSELF.fresh(ctx, "self")
        loc["_ghost_atoms"] = atoms

    return prelude


def alt_of(atom, alts):
    """the one alternative of the rule that is present in the atom's context"""
    r = None
    for k in alts:
        if getattr(atom, k)() is not None:
            r = k
    return r


contract(
    QC + "enterGroup_by_body", props=["C04"], args={}, prelude=_atoms_prelude(G_ALTS, "group_by_atom"), list_bound=NATOMS, bounded_note=LIST_BOUNDED,
    modifies={"self.zorg_query.group_by": T.opaque("GroupByTuple")},
    ensures={"the-dimensions-spelled-in-order-none-contributing-nothing":
             "self.zorg_query.group_by == tuple(G_TABLE[alt_of(a, G_ALTS)] for a in _ghost_atoms if alt_of(a, G_ALTS) != 'none')"},
)
contract(
    QC + "enterOrder_by_body", props=["C04"], args={}, prelude=_atoms_prelude(O_ALTS, "order_by_atom"), list_bound=NATOMS, bounded_note=LIST_BOUNDED,
    modifies={"self.zorg_query.order_by": T.opaque("OrderByTuple")},
    ensures={"the-keys-spelled-in-order": "self.zorg_query.order_by == tuple(O_TABLE[alt_of(a, O_ALTS)] for a in _ghost_atoms)"},
)
