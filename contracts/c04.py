"""C04 - query text is compiled into the structure its syntax denotes: helper contracts.

Clauses are taken from the statement: Pn-m inclusive; date atoms absolute / relative (d, m, y; minus = past);
property atoms carry key, operator, value, negation and a value type inferred from the value; CLI defaults.
"""
from engine.spec import T, contract, fullmatch, implies, lemma, today
from zorg.domain.models._query import DescFilter
from zorg.domain.types import DescOperator, PropertyOperator, PropertyValueType

Q = "zorg.service.compiler._query_compiler:"
D = "zorg.shared.dates:"

# ---- dates -----------------------------------------------------------------------------------------
contract(D + "is_short_date_spec", props=["C04", "C01"], args={"short_date": T.str()}, returns=T.bool(),
         ensures={"six-digits": "result == fullmatch('[0-9]{6}', short_date)"})
contract(D + "is_long_date_spec", props=["C04", "C05"], args={"long_date": T.str()}, returns=T.bool(),
         ensures={"yyyy-mm-dd": "result == fullmatch('[0-9]{4}-[0-9]{2}-[0-9]{2}', long_date)"})
contract(D + "_is_relative_date_spec", props=["C04"], args={"spec": T.str()}, returns=T.bool(),
         ensures={"count-and-unit": "result == fullmatch('-?[0-9]+[dmyDMY]', spec)"})
contract(D + "is_date_spec", props=["C04"], args={"spec": T.str()}, returns=T.bool(),
         ensures={"any-date-form": "result == (fullmatch('[0-9]{6}', spec) or fullmatch('[0-9]{4}-[0-9]{2}-[0-9]{2}', spec) or fullmatch('-?[0-9]+[dmyDMY]', spec))"})


def add_months(d, n):
    """calendar-month addition with end-of-month clamping (dateutil.relativedelta, assumed)"""
    from dateutil.relativedelta import relativedelta

    return d + relativedelta(months=n)


contract(
    D + "_from_relative_date_spec", props=["C04"], timeout_ms=90000,
    args={"spec": T.bstr(2, 5), "start_date": T.date()},
    requires={"token-shape": "rel_token(spec)"},
    returns=T.date(),
    ensures={
        "days": "implies(spec[-1] in 'dD', result == start_date + days(signed_count(spec)))",
        "months": "implies(spec[-1] in 'mM', result == months_from(start_date, signed_count(spec)))",
        "years": "implies(spec[-1] in 'yY', result == months_from(start_date, 12 * signed_count(spec)))",
    },
    bounded_note="relative date tokens of at most 5 characters (counts up to 9999 / -999)",
)


def rel_token(spec):
    """-?[0-9]+[dmyDMY], stated character-wise (the argument is a bounded string)"""
    body = spec[1:-1] if spec[0] == "-" else spec[:-1]
    return len(body) >= 1 and all(c in "0123456789" for c in body) and spec[-1] in "dmyDMY"


def count_of(spec):
    s = spec[1:-1] if spec[0] == "-" else spec[:-1]
    return int(s)


def signed_count(spec):
    """a leading minus means the past"""
    return -count_of(spec) if spec[0] == "-" else count_of(spec)


def days(n):
    import datetime as dt

    return dt.timedelta(days=n)


def months_from(d, n):
    from dateutil.relativedelta import relativedelta

    return d + relativedelta(months=n)


# ---- property atoms ----------------------------------------------------------------------------------
contract(
    Q + "_split_op_value", props=["C04"], args={"op_value": T.str()},
    requires={"operator-is-followed-by-a-value (grammar: prop_op? (id | STAR))":
              "len(op_value) >= 1 and not fullmatch('(<|>|<=|>=)', op_value)"},
    ensures={
        "le": "implies(op_value.startswith('<='), result == (PropertyOperator.LE, op_value[2:]))",
        "lt": "implies(op_value.startswith('<') and not op_value.startswith('<='), result == (PropertyOperator.LT, op_value[1:]))",
        "ge": "implies(op_value.startswith('>='), result == (PropertyOperator.GE, op_value[2:]))",
        "gt": "implies(op_value.startswith('>') and not op_value.startswith('>='), result == (PropertyOperator.GT, op_value[1:]))",
        "exists": "implies(op_value == '*', result == (PropertyOperator.EXISTS, ''))",
        "eq": "implies(not op_value.startswith('<') and not op_value.startswith('>') and op_value != '*', result == (PropertyOperator.EQ, op_value))",
    },
)
contract(
    Q + "_get_value_type", props=["C04"], args={"value": T.str()},
    ensures={
        "date": "implies(date_shaped(value), result == PropertyValueType.DATE)",
        "integer": "implies(not date_shaped(value) and fullmatch('[0-9]*', value), result == PropertyValueType.INTEGER)",
        "string": "implies(not date_shaped(value) and not fullmatch('[0-9]*', value), result == PropertyValueType.STRING)",
    },
)


def date_shaped(v):
    return fullmatch("[0-9]{6}", v) or fullmatch("[0-9]{4}-[0-9]{2}-[0-9]{2}", v) or fullmatch("-?[0-9]+[dmyDMY]", v)


# ---- text atoms ------------------------------------------------------------------------------------------
contract(
    Q + "_get_desc_filter", props=["C04"],
    args={"w": T.rec("ParserCtx", {"text": T.str()})},
    requires={"token-shape: [!][c] quote text quote": "fullmatch(\"!?c?('[^']+'|\\\"[^\\\"]+\\\")\", w.getText())"},
    ensures={
        "negation": "result.op == (DescOperator.NOT_CONTAINS if w.getText().startswith('!') else DescOperator.CONTAINS)",
        "case-flag": "(result.case_sensitive == True) if (w.getText().startswith('c') or w.getText().startswith('!c')) else (result.case_sensitive is None)",
        "value-is-the-quoted-text": "result.value == w.getText()[prefix_len(w.getText()) + 1 : len(w.getText()) - 1]",
    },
)


def prefix_len(t):
    return (1 if t.startswith("!") else 0) + (1 if (t.startswith("c") or t.startswith("!c")) else 0)


# ---- CLI normalisation -------------------------------------------------------------------------------------
def normalised(q):
    return q if q.startswith(("S ", "W ")) else "W " + q


def _query_prelude(interp, loc):
    from engine import sym

    loc["kwargs"] = {"command": "query", "query": sym.TStr().fresh(interp.ctx, "query")}


contract(
    "zorg.app.config:_process_query", props=["C04"], args={}, prelude=_query_prelude,
    ensures={
        "where-prefix": "kwargs['query'].startswith(old(kwargs['query']) if old(kwargs['query']).startswith(('S ', 'W ')) else 'W ' + old(kwargs['query']))",
        "default-group-by-file": "implies(not old(kwargs['query']).startswith('S ') and ' G ' not in normalised(old(kwargs['query'])), kwargs['query'].endswith(' G file'))",
        "default-order-alpha-for-non-note-selects": "implies(old(kwargs['query']).startswith('S ') and not old(kwargs['query']).startswith('S note') and ' O ' not in old(kwargs['query']), kwargs['query'] == old(kwargs['query']) + ' O alpha')",
        "note-selects-untouched": "implies(old(kwargs['query']).startswith('S note'), kwargs['query'] == old(kwargs['query']))",
    },
)
