"""C12 - a note's text form (clauses from the statement: kind character, priority only for todos that are not
done or cancelled, the stripped body, a newline)."""
from engine.spec import T, contract, implies
from zorg.domain.models import Note, TodoPayload
from zorg.domain.types import NoteType

NOTE = T.rec("Note", {"body": T.str(), "todo_payload": T.opt(T.rec("TodoPayload", {"priority": T.str(), "status": T.enum(NoteType)}, cls=TodoPayload))}, cls=Note)


def kind_char(k):
    return ("-" if k == NoteType.BASIC else "o" if k == NoteType.OPEN_TODO else "x" if k == NoteType.CLOSED_TODO
            else "~" if k == NoteType.CANCELED_TODO else "<" if k == NoteType.BLOCKED_TODO else ">")


contract(
    "zorg.domain.models._page:Note.to_string", props=["C12", "C09", "C10"], args={"self": NOTE}, returns=T.str(), frame=True,
    ensures={
        "plain-note": "implies(self.todo_payload is None, result == '- ' + self.body.strip() + '\\n')",
        "done-or-cancelled-todo-has-no-priority": "implies(self.todo_payload is not None and self.todo_payload.status in (NoteType.CLOSED_TODO, NoteType.CANCELED_TODO), "
                                                  "result == kind_char(self.todo_payload.status) + ' ' + self.body.strip() + '\\n')",
        "other-todos-carry-their-priority": "implies(self.todo_payload is not None and self.todo_payload.status not in (NoteType.CLOSED_TODO, NoteType.CANCELED_TODO), "
                                            "result == kind_char(self.todo_payload.status) + ' ' + self.todo_payload.priority + ' ' + self.body.strip() + '\\n')",
    },
)
