"""C05 / C11 - first-line rewriting (ZID insertion, modify-date stamping) and the file update frame.

Lines are handled as lists of words separated by single spaces (an empty word = an extra space), exactly
what `line.split(" ")` yields.  The specifications below are written from the statements:
  C05: the new ZID is inserted after the kind/priority prefix, taking the place of a leading YYYY-MM-DD date;
  C11: the YYMMDD date is inserted in front of the ZID, or replaces the one that is there.
"""
import os

from engine.spec import T, contract, forall, fullmatch, implies, lemma

KIND_CHARS = ("-", "o", "x", "~", "<", ">")
WORDS_MAX = 4 if os.environ.get("VERIF_TIER") != "thorough" else 7


def indent_of(words):
    """number of leading empty words (= leading spaces of the line)"""
    k = 0
    while k < len(words) and words[k] == "":
        k = k + 1
    return k


def is_priority(w):
    return fullmatch("P[0-9]", w)


def is_long_date(w):
    return fullmatch("[0-9]{4}-[0-9]{2}-[0-9]{2}", w)


def is_short_date(w):
    return fullmatch("[0-9]{6}", w)


def first_line_ok(words):
    """a note's first line: [indent] symbol [priority] at least one more word"""
    k = indent_of(words)
    return k + 1 < len(words) and words[k] in KIND_CHARS and (not is_priority(words[k + 1]) or k + 2 < len(words))


def prefix_of(words):
    k = indent_of(words)
    p = is_priority(words[k + 1])
    return " " * k + words[k] + " " + (words[k + 1] + " " if p else "")


def rest_of(words):
    k = indent_of(words)
    return words[k + 2:] if is_priority(words[k + 1]) else words[k + 1:]


def with_zid(zid, words):
    rest = rest_of(words)
    rest = rest[1:] if is_long_date(rest[0]) else rest
    return prefix_of(words) + zid + " " + " ".join(rest)


def with_modify_date(date6, words):
    rest = rest_of(words)
    rest = rest[1:] if (len(rest) > 0 and is_short_date(rest[0])) else rest
    return prefix_of(words) + date6 + " " + " ".join(rest)


def _words_prelude(interp, loc):
    """words: 2..WORDS_MAX space-free words; line = ' '.join(words)"""
    import z3
    from engine import sym

    ctx = interp.ctx
    ws = sym.TCList(sym.TStr(), 2, WORDS_MAX).fresh(ctx, "w")
    for w in ws:
        ctx.assume(z3.Not(z3.Contains(w.t, z3.StringVal(" "))))
        ctx.assume(z3.InRe(w.t, z3.Star(z3.Range(z3.StringVal(chr(0)), z3.StringVal(chr(127))))))
    loc["_ghost_words"] = ws
    if "line" in loc:
        loc["line"] = interp.models.str_method(interp, " ", "join", [ws], {})
    if "words" in loc:
        loc["words"] = list(ws)


BOUNDED = f"bounded-symbolic: first lines of at most {WORDS_MAX} space-separated words (an empty word is an extra space); every word fully symbolic"
H = "zorg.service.handlers:"

contract(
    H + "_pop_line_before_zid", props=["C05", "C11"], list_bound=WORDS_MAX, bounded_note=BOUNDED, opaque_call=False,
    args={"words": T.const(None)}, prelude=_words_prelude,
    requires={"first-line-shape": "first_line_ok(words)"},
    ensures={
        "prefix": "result == prefix_of(old(words))",
        "consumed": "words == rest_of(old(words))",
    },
)
contract(
    H + "_add_zid_to_line", props=["C05"], list_bound=WORDS_MAX, bounded_note=BOUNDED,
    args={"zid": T.str(), "line": T.const(None)}, prelude=_words_prelude,
    requires={"first-line-shape": "first_line_ok(_ghost_words)"},
    ensures={"zid-after-prefix-replacing-long-date": "result == with_zid(zid, _ghost_words)"},
)
contract(
    H + "_add_or_update_modify_date", props=["C11"], list_bound=WORDS_MAX, bounded_note=BOUNDED,
    args={"short_modify_date": T.str(), "line": T.const(None)}, prelude=_words_prelude,
    requires={"first-line-shape": "first_line_ok(_ghost_words)"},
    ensures={"date-in-front-of-the-zid": "result == with_modify_date(short_modify_date, _ghost_words)"},
)
