"""C05 / C11 - first-line rewriting (ZID insertion, modify-date stamping) and the file update frame.

Lines are handled as lists of words separated by single spaces (an empty word = an extra space), exactly
what `line.split(" ")` yields.  The specifications below are written from the statements:
  C05: the new ZID is inserted after the kind/priority prefix, taking the place of a leading YYYY-MM-DD date;
  C11: the YYMMDD date is inserted in front of the ZID, or replaces the one that is there.
"""
import os

from engine.spec import T, contract, forall, fullmatch, implies, lemma

KIND_CHARS = ("-", "o", "x", "~", "<", ">")
WORDS_MAX = 4 if os.environ.get("VERIF_TIER") != "thorough" else 7


def indent_of(words):
    """number of leading empty words (= leading spaces of the line)"""
    k = 0
    while k < len(words) and words[k] == "":
        k = k + 1
    return k


def is_priority(w):
    return fullmatch("P[0-9]", w)


def is_long_date(w):
    return fullmatch("[0-9]{4}-[0-9]{2}-[0-9]{2}", w)


def is_short_date(w):
    return fullmatch("[0-9]{6}", w)


def first_line_ok(words):
    """a note's first line: [indent] symbol [priority] at least one more word"""
    k = indent_of(words)
    return k + 1 < len(words) and words[k] in KIND_CHARS and (not is_priority(words[k + 1]) or k + 2 < len(words))


def prefix_of(words):
    k = indent_of(words)
    p = is_priority(words[k + 1])
    return " " * k + words[k] + " " + (words[k + 1] + " " if p else "")


def rest_of(words):
    k = indent_of(words)
    return words[k + 2:] if is_priority(words[k + 1]) else words[k + 1:]


def with_zid(zid, words):
    rest = rest_of(words)
    rest = rest[1:] if is_long_date(rest[0]) else rest
    return prefix_of(words) + zid + " " + " ".join(rest)


def with_modify_date(date6, words):
    rest = rest_of(words)
    rest = rest[1:] if (len(rest) > 0 and is_short_date(rest[0])) else rest
    return prefix_of(words) + date6 + " " + " ".join(rest)


def _words_prelude(interp, loc):
    """words: 2..WORDS_MAX space-free words; line = ' '.join(words)"""
    import z3
    from engine import sym

    ctx = interp.ctx
    ws = sym.TCList(sym.TStr(), 2, WORDS_MAX).fresh(ctx, "w")
    for w in ws:
        ctx.assume(z3.Not(z3.Contains(w.t, z3.StringVal(" "))))
        ctx.assume(z3.InRe(w.t, z3.Star(z3.Range(z3.StringVal(chr(0)), z3.StringVal(chr(127))))))
    loc["_ghost_words"] = ws
    if "line" in loc:
        loc["line"] = interp.models.str_method(interp, " ", "join", [ws], {})
    if "words" in loc:
        loc["words"] = list(ws)


BOUNDED = f"bounded-symbolic: first lines of at most {WORDS_MAX} space-separated words (an empty word is an extra space); every word fully symbolic"
H = "zorg.service.handlers:"

contract(
    H + "_pop_line_before_zid", props=["C05", "C11"], list_bound=WORDS_MAX, bounded_note=BOUNDED, opaque_call=False,
    args={"words": T.const(None)}, prelude=_words_prelude,
    requires={"first-line-shape": "first_line_ok(words)"},
    ensures={
        "prefix": "result == prefix_of(old(words))",
        "consumed": "words == rest_of(old(words))",
    },
)
contract(
    H + "_add_zid_to_line", props=["C05"], list_bound=WORDS_MAX, bounded_note=BOUNDED,
    args={"zid": T.str(), "line": T.const(None)}, prelude=_words_prelude,
    requires={"first-line-shape": "first_line_ok(_ghost_words)"},
    ensures={"zid-after-prefix-replacing-long-date": "result == with_zid(zid, _ghost_words)"},
)
contract(
    H + "_add_or_update_modify_date", props=["C11"], list_bound=WORDS_MAX, bounded_note=BOUNDED,
    args={"short_modify_date": T.str(), "line": T.const(None)}, prelude=_words_prelude,
    requires={"first-line-shape": "first_line_ok(_ghost_words)"},
    ensures={"date-in-front-of-the-zid": "result == with_modify_date(short_modify_date, _ghost_words)"},
)


# ---------------------------------------------------------------------------------------------------------------
# _update_zo_file: the write-back frame of C05 ("files change only to gain ZIDs") and C11 ("every other note's lines stay
# byte-identical"): exactly the first lines of the notes to update are rewritten, by the given line function.
# ---------------------------------------------------------------------------------------------------------------
from engine.spec import fs_exists, fs_only_changed, fs_read, json_map, map_set, opaque  # noqa: E402
from contracts.hashfile import _fs_havoc, hash_file_of, sha256_of  # noqa: E402,F401
from contracts.c16 import relative  # noqa: E402,F401
from zorg.domain.models import Note  # noqa: E402

NLINES = 3 if os.environ.get("VERIF_TIER") != "thorough" else 4
PATH = T.rec("Path", {"s": T.str()})
UPD_BOUNDED = (f"bounded-symbolic: pages of at most {NLINES} lines and at most 2 notes to update (bodies of 1-2 lines); every line, ZID and line number "
               "fully symbolic; the line function and the value getter are uninterpreted functions")


def _update_prelude(interp, loc):
    """the page holds 1..NLINES newline-free lines; 1..2 notes to update with ZIDs, line numbers and 1-2 line bodies; the
    line function / value getter are uninterpreted (get_thing depends on the note through its ZID: attrgetter('zid') and the
    constant today's date at the two call sites)"""
    import z3
    from engine import models, sym

    ctx = interp.ctx
    lines = sym.TCList(sym.TStr(), 1, NLINES).fresh(ctx, "line")
    for w in lines:
        ctx.assume(z3.Not(z3.Contains(w.t, z3.StringVal("\n"))))
    n = 1 if ctx.branch(ctx.fresh("one.note", z3.BoolSort()), "one note to update") else 2
    notes = []
    for i in range(n):
        bl = sym.TCList(sym.TStr(), 1, 2).fresh(ctx, f"note{i}.bodyline")
        for w in bl:
            ctx.assume(z3.Not(z3.Contains(w.t, z3.StringVal("\n"))))
        notes.append(sym.Rec("Note", {"zid": sym.TStr().fresh(ctx, f"note{i}.zid"), "line_no": sym.TInt(None, None).fresh(ctx, f"note{i}.line_no"),
                                      "body": models.str_method(interp, "\n", "join", [bl], {})}, cls=Note))
    f_add = sym.ufun("add_thing_to_first_line", z3.StringSort(), z3.StringSort(), z3.StringSort())
    f_get = sym.ufun("get_thing", z3.StringSort(), z3.StringSort())
    loc["zdir"], loc["zo_path"] = PATH.fresh(ctx, "zdir"), PATH.fresh(ctx, "zo_path")
    loc["notes_to_update"] = notes
    loc["add_thing_to_first_line"] = models._Closure(lambda thing, line: sym.sstr(f_add(sym.zstr(thing), sym.zstr(line))))
    loc["get_thing"] = models._Closure(lambda note: sym.sstr(f_get(sym.zstr(note.fields["zid"]))))
    loc["log_message"] = "updating"
    loc["_ghost_lines"] = lines
    g = models.fs_state(interp)
    ps = sym.zstr(loc["zo_path"].fields["s"])
    g["fs_exists"] = z3.Store(g["fs_exists"], ps, True)
    g["fs_content"] = z3.Store(g["fs_content"], ps, sym.zstr(models.str_method(interp, "\n", "join", [lines], {})))


def rewritten(lines, notes, add, get):
    """the page after the update: the first line of every note to update goes through the line function, in the order given;
    every other line is kept as it is"""
    out = list(lines)
    for n in notes:
        out[n.line_no - 1] = add(get(n), out[n.line_no - 1])
    return "\n".join(out)


contract(
    H + "_update_zo_file", props=["C05", "C11"], args={}, prelude=_update_prelude, list_bound=NLINES, bounded_note=UPD_BOUNDED,
    requires={
        "index-agrees-with-file": "all(1 <= n.line_no and n.line_no <= len(_ghost_lines) for n in notes_to_update)",
        "the-hash-file-exists": "fs_exists(hash_file_of(zdir)) and hash_file_of(zdir) != zo_path",
    },
    ensures={
        "only-first-lines-of-the-given-notes-are-rewritten": "fs_read(zo_path) == rewritten(_ghost_lines, notes_to_update, add_thing_to_first_line, get_thing)",
        "only-the-page-and-the-hash-file-change": "fs_only_changed(zo_path, hash_file_of(zdir))",
        "only-the-page's-own-hash-entry-is-refreshed": "json_map(fs_read(hash_file_of(zdir))) == map_set(old(json_map(fs_read(hash_file_of(zdir)))), relative(zdir, zo_path), sha256_of(fs_read(zo_path)))",
    },
)
