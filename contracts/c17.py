"""C17 contracts."""
