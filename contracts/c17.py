"""C17 - the local facts of `action open` that are within the verifier's reach: what counts as a local link word, what opening
a local link answers (one SEARCH protocol message, nothing else), what opening a ZID answers (EDIT + SEARCH of the owner's page,
or nothing with exit status 1 when no indexed note owns it), and that `_open_link` selects the opener by the target's own
shape only - so that option k opens the same thing as a line containing only the k-th target.  Standard output is a ghost list
of the values printed (`printed()`); the index lookup and the other openers are assumed (uninterpreted) contracts.  The word
scan of run_action_open itself is decided by the bounded tier only."""
from engine.spec import T, contract, ghost, implies, opaque, printed  # noqa: F401
from contracts import c16  # noqa: F401  (assumed contract of prepend_zdir: result is page_path(zdir, path))
from contracts.c16 import page_path  # noqa: F401

PATH = T.rec("Path", {"s": T.str()})
CFG = T.rec("OpenActionConfig", {"zettel_dir": PATH, "zo_path": PATH, "database_url": T.str(), "verbose": T.int()})
R = "zorg.app.runners._run_action:"
SEARCH_END = "\\ze\\(\\s\\|[),.?!;:]\\|$\\)"

contract(
    R + "_is_local_link", props=["C17"], args={"word": T.str()}, returns=T.bool(), frame=True,
    # only what the statement needs (a word such as `]][^`, marker after the bracket, is no local link under any reading and is left open)
    ensures={"a-word-with-[^...]-is-a-local-link": "implies('[^' in word and ']' in word[word.find('[^'):], result)",
             "nothing-else-is": "implies(result, '[^' in word and ']' in word)"},
)

contract(
    R + "_open_local_link", props=["C17"], args={"local_link": T.str()}, returns=T.int(),
    requires={"a-local-link-target": "local_link.startswith('[^') and local_link.endswith(']') and len(local_link) >= 3"},
    ensures={
        "one-SEARCH-message-for-the-anchor": "printed() == ['SEARCH LID::' + local_link[2:len(local_link) - 1] + SEARCH_END]",
        "succeeds": "result == 0",
    },
)


# ---------------------------------------------------------------------------------------------------------------
# _open_zid_link: the index lookup is an assumed contract (stub): no indexed note owns the ZID, or one does and its page is
# ghost `owner` (any path).  The statement: a ZID target resolves to the page of the indexed note that owns it.
# ---------------------------------------------------------------------------------------------------------------
def _zid_prelude(interp, loc):
    import z3

    ctx = interp.ctx
    owned = ctx.branch(ctx.fresh("zid_is_owned", z3.BoolSort()), "an indexed note owns the ZID")
    ctx.ghost["user"] = {"owner": PATH.fresh(ctx, "owner_page") if owned else None}


def _stub_note_by_zid(interp, args, kwargs):
    """ASSUMED note_utils.get_note_by_zid(zdir, db_url, zid): the indexed note whose ZID is `zid` (its page: ghost `owner`), None
    when there is none; no output"""
    from engine import sym

    owner = interp.ctx.ghost["user"]["owner"]
    return None if owner is None else sym.Rec("Note", {"file_path": owner})


contract(
    R + "_open_zid_link", props=["C17"], args={"cfg": CFG, "zid": T.str()}, returns=T.int(), prelude=_zid_prelude,
    stubs={"zorg.service.note_utils:get_note_by_zid": _stub_note_by_zid},
    ensures={
        "unknown-ZID: no message, exit status 1": "implies(ghost('owner') is None, result == 1 and printed() == [])",
        "owned-ZID: EDIT the owner's page under the notes directory, then SEARCH the ZID":
            "implies(ghost('owner') is not None, result == 0 and printed() == ['EDIT ' + str(page_path(cfg.zettel_dir, ghost('owner'))), 'SEARCH \\\\s\\\\zs' + zid])",
    },
)


# ---------------------------------------------------------------------------------------------------------------
# _open_link: the opener is selected by the target's own shape (never by its position on the line or by the other targets), in
# the statement's order page link, local, global, reference, named URL, (cite key), ZID.  The openers are uninterpreted here:
# each is a function of (cfg, target) - their own contracts are above or, for the index-backed ones, in the bounded tier.
# ---------------------------------------------------------------------------------------------------------------
@opaque("int", always=True)
def opened_as_page(cfg, target):
    raise NotImplementedError("uninterpreted opener result (verifier only)")


@opaque("int", always=True)
def opened_as_global(cfg, target):
    raise NotImplementedError("uninterpreted opener result (verifier only)")


@opaque("int", always=True)
def opened_as_reference(cfg, target):
    raise NotImplementedError("uninterpreted opener result (verifier only)")


@opaque("int", always=True)
def opened_as_url(cfg, target):
    raise NotImplementedError("uninterpreted opener result (verifier only)")


@opaque("int", always=True)
def opened_as_zid(cfg, target):
    raise NotImplementedError("uninterpreted opener result (verifier only)")


@opaque("int", always=True)
def opened_as_cite(zdir, target):
    raise NotImplementedError("uninterpreted opener result (verifier only)")


@opaque("int", always=True)
def opened_as_local(target):
    raise NotImplementedError("uninterpreted opener result (verifier only)")


_A = dict(props=["C17"], assumed=True, note="ASSUMED: uninterpreted opener (a function of cfg and the target)")
contract(R + "_open_url_link", args={"cfg": CFG, "url_link": T.str()}, result_is="opened_as_url(cfg, url_link)", **_A)
contract(R + "_open_cite_key_link", args={"zdir": PATH, "z_cite_key": T.str()}, result_is="opened_as_cite(zdir, z_cite_key)", **_A)


def _stub_open_local(interp, args, kwargs):
    return interp.call(interp.wrap_global(opened_as_local), [args[0]], {})


def _stub_open_zid(interp, args, kwargs):
    return interp.call(interp.wrap_global(opened_as_zid), [args[0], args[1]], {})


def _stub_open_page(interp, args, kwargs):
    return interp.call(interp.wrap_global(opened_as_page), [args[0], args[2]], {})


def _stub_open_global(interp, args, kwargs):
    return interp.call(interp.wrap_global(opened_as_global), [args[0], args[1]], {})


def _stub_open_reference(interp, args, kwargs):
    return interp.call(interp.wrap_global(opened_as_reference), [args[0], args[1]], {})


contract(
    R + "_open_link", props=["C17"], args={"cfg": CFG, "target": T.str()}, returns=T.int(),
    stubs={R + "_open_local_link": _stub_open_local, R + "_open_zid_link": _stub_open_zid, R + "_open_global_link": _stub_open_global,
           R + "_open_rid_link": _stub_open_reference, R + "_open_file_link": _stub_open_page},
    # ID / RID / URL names are identifiers: they never contain the local-link marker `[^` (a word such as `[#[^x]]` is outside the
    # statement's vocabulary and is left open)
    ensures={
        "page-link": "implies(target.startswith('[[') and target.endswith(']]'), result == opened_as_page(cfg, target))",
        "local-link": "implies(target.startswith('[^') and target.endswith(']'), result == opened_as_local(target))",
        "global-link": "implies(target.startswith('[#') and target.endswith(']') and '[^' not in target, result == opened_as_global(cfg, target))",
        "reference-link": "implies(target.startswith('[@') and target.endswith(']') and '[^' not in target, result == opened_as_reference(cfg, target))",
        "named-URL-link": "implies(target.startswith('[!') and target.endswith(']') and '[^' not in target, result == opened_as_url(cfg, target))",
        "bare-ZID": "implies(not target.startswith('[') and not target.startswith('z::') and not ('[^' in target and ']' in target), result == opened_as_zid(cfg, target))",
    },
)


# ---------------------------------------------------------------------------------------------------------------
# _open_rid_link: the index lookup is a stub returning the 0..2 indexed notes that carry the RID (ghost `owners`: their pages).
# The statement: a RID target resolves to the page of the indexed note that owns it; only protocol messages are answered.
# ---------------------------------------------------------------------------------------------------------------
def _rid_prelude(interp, loc):
    import z3

    ctx = interp.ctx
    n = 0
    while n < 2 and ctx.branch(ctx.fresh(f"rid_owner_{n}", z3.BoolSort()), f"more than {n} notes carry the RID"):
        n += 1
    ctx.ghost["user"] = {"owners": [PATH.fresh(ctx, f"owner_page{i}") for i in range(n)]}


def _stub_notes_by_id(interp, args, kwargs):
    """ASSUMED note_utils.get_notes_by_id(zdir, db_url, id, id_key=...): the indexed notes that carry the property (their pages: ghost
    `owners`, at most 2 here); no output"""
    from engine import sym

    return [sym.Rec("Note", {"file_path": p}) for p in interp.ctx.ghost["user"]["owners"]]


contract(
    R + "_open_rid_link", props=["C17"], args={"cfg": CFG, "rid_link": T.str()}, returns=T.int(), prelude=_rid_prelude,
    stubs={"zorg.service.note_utils:get_notes_by_id": _stub_notes_by_id},
    requires={"a-reference-target": "rid_link.startswith('[@') and rid_link.endswith(']') and len(rid_link) >= 3"},
    bounded_note="bounded-symbolic: at most 2 indexed notes carry the RID (pages and the RID fully symbolic)",
    ensures={
        "no-owner: one ECHO message, exit status 1": "implies(len(ghost('owners')) == 0, result == 1 and len(printed()) == 1 and printed()[0].startswith('ECHO '))",
        "one-owner: EDIT the owner's page under the notes directory, then SEARCH the RID":
            "implies(len(ghost('owners')) == 1, result == 0 and printed() == ['EDIT ' + str(page_path(cfg.zettel_dir, ghost('owners')[0])), "
            "'SEARCH RID::' + rid_link[2:len(rid_link) - 1] + SEARCH_END])",
        "several-owners: nothing is opened - one ECHO message, exit status 1":
            "implies(len(ghost('owners')) > 1, result == 1 and len(printed()) == 1 and printed()[0].startswith('ECHO '))",
    },
)


# _open_global_link: same stub; several notes of ONE page still open that page (the statement: the page of the note that owns the ID)
contract(
    R + "_open_global_link", props=["C17"], args={"cfg": CFG, "id_link": T.str()}, returns=T.int(), prelude=_rid_prelude,
    stubs={"zorg.service.note_utils:get_notes_by_id": _stub_notes_by_id},
    requires={"a-global-target": "id_link.startswith('[#') and id_link.endswith(']') and len(id_link) >= 3"},
    bounded_note="bounded-symbolic: at most 2 indexed notes carry the ID (pages and the ID fully symbolic)",
    ensures={
        "no-owner: one ECHO message, exit status 1": "implies(len(ghost('owners')) == 0, result == 1 and len(printed()) == 1 and printed()[0].startswith('ECHO '))",
        "owners-on-one-page: EDIT that page under the notes directory, then SEARCH the ID":
            "implies(len(ghost('owners')) >= 1 and all(p == ghost('owners')[0] for p in ghost('owners')), result == 0 and printed() == ["
            "'EDIT ' + str(page_path(cfg.zettel_dir, ghost('owners')[0])), 'SEARCH ID::' + id_link[2:len(id_link) - 1] + SEARCH_END])",
        "owners-on-several-pages: nothing is opened - one ECHO message, exit status 1":
            "implies(len(ghost('owners')) > 1 and not all(p == ghost('owners')[0] for p in ghost('owners')), result == 1 and len(printed()) == 1 and printed()[0].startswith('ECHO '))",
    },
)


# ---------------------------------------------------------------------------------------------------------------
# _open_file_link: [[p]] resolves to page p under the notes directory.  Text pages only
# (the page's extension is not a configured binary extension - binary files are handed to an external program, outside the
# statement); creating a missing page from its template is a stub (C16).  Path.suffix is an uninterpreted function of the path.
# ---------------------------------------------------------------------------------------------------------------
from pathlib import Path  # noqa: E402,F401

CFG_FILE = T.rec("OpenActionConfig", {"zettel_dir": PATH, "zo_path": PATH, "database_url": T.str(), "verbose": T.int(), "binary_exts": T.list(T.str()),
                                      "template_pattern_map": T.map(T.str(), T.str())})


def _stub_init_from_template(interp, args, kwargs):
    """ASSUMED init_from_template: creates the missing page from its template, prints nothing (its own contract: C16)"""
    return None


contract(
    R + "_open_file_link", props=["C17"], args={"cfg": CFG_FILE, "zo_path": PATH, "link": T.str()}, returns=T.int(),
    stubs={"zorg.service.templates:init_from_template": _stub_init_from_template},
    requires={"a-page-link-with-at-most-one-anchor": "link.startswith('[[') and link.endswith(']]') and len(link) >= 5 and '#' not in link[link.find('#') + 1:]",
              "no-binary-extensions-configured (text pages only)": "len(cfg.binary_exts) == 0"},
    ensures={
        "[[p]]: EDIT page p under the notes directory, nothing else":
            "implies('#' not in link, result == 0 and printed() == ['EDIT ' + str(page_path(cfg.zettel_dir, Path(link[2:len(link) - 2])))])",
        "[[p#a]]: EDIT page p under the notes directory, then SEARCH anchor a":
            "implies('#' in link, result == 0 and printed() == ['EDIT ' + str(page_path(cfg.zettel_dir, Path(link[2:link.find('#')]))), "
            "'SEARCH LID::' + link[link.find('#') + 1:len(link) - 2]])",
    },
)
