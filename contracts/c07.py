"""C07 - ZIDs are unique, well-formed and recognised by every component.

Spec vocabulary is written from the property statement: the suffix alphabet has 51
characters (51**2 + 51**3 == 135,252), the successor chain enumerates all 2-character
suffixes before the 3-character ones, allocation fails only after the last one.
"""
from engine.spec import (T, contract, exists, forall, fs_exists, fs_read, fullmatch, implies, json_map, lemma,
                         map_get, map_set, opaque, ymd)

# 0-9 A-Z a-z minus the 11 look-alike characters (I O Q S g i j l p q y): 62 - 11 = 51
ALPH = "0123456789ABCDEFGHJKLMNPRTUVWXYZabcdefhkmnorstuvwxz"
assert len(ALPH) == 51 and len(ALPH) ** 2 + len(ALPH) ** 3 == 135252
N = 51
TOTAL = 135252


def in_alph(c):
    return c in ALPH


@opaque("bool")
def wf_suffix(s):
    """A well-formed ID suffix: 2 or 3 characters of the alphabet."""
    return (len(s) == 2 or len(s) == 3) and all(in_alph(c) for c in s)


def _ranges():
    out, start = [], 0
    for k in range(1, len(ALPH) + 1):
        if k == len(ALPH) or ord(ALPH[k]) != ord(ALPH[k - 1]) + 1:
            out.append((ALPH[start], ALPH[k - 1], start))
            start = k
    return tuple(out)


RANGES = _ranges()  # maximal runs of consecutive code points of ALPH: (first, last, index of first)
assert sum(ord(b) - ord(a) + 1 for a, b, _ in RANGES) == N


def pos(c):
    """Index of character c in ALPH (0 when absent; only used under wf_suffix)."""
    r = 0
    for lo, hi, base in RANGES:
        r = base + ord(c) - ord(lo) if ord(lo) <= ord(c) and ord(c) <= ord(hi) else r
    return r


assert all(pos(a) == k for k, a in enumerate(ALPH))


@opaque("int")
def rank(s):
    """Position of suffix s in the successor chain: '00' is 0, 'zz' is 51**2-1, '000' is 51**2."""
    if len(s) == 2:
        return pos(s[0]) * N + pos(s[1])
    return N * N + pos(s[0]) * N * N + pos(s[1]) * N + pos(s[2])


LAST = "zzz"
assert rank("00") == 0 and rank("zz") == N * N - 1 and rank("000") == N * N and rank(LAST) == TOTAL - 1

contract(
    "zorg.storage.sql._zid_manager:_get_next_id",
    props=["C07", "C05"],  # C05: every ZID `db create` writes into a file is one the compiler reads back as a ZID
    args={"last_id": T.bstr(2, 3)},
    returns=T.bstr(2, 3),
    requires={"wf": "wf_suffix(last_id)"},
    ensures={
        "wf": "wf_suffix(result)",
        "rank-successor": "rank(result) == rank(last_id) + 1",
    },
    raises={"RuntimeError": "last_id == LAST"},
    note="complete unrolling: the length is case-split (2|3), so every loop has a concrete bound and "
    "the unwinding assertion is the infeasibility of one more iteration",
)

lemma(
    "C07/rank-injective",
    props=["C07"],
    vars={"a": T.bstr(2, 3), "b": T.bstr(2, 3)},
    assumes={"wf": "wf_suffix(a) and wf_suffix(b)"},
    shows={
        "injective": "implies(rank(a) == rank(b), a == b)",
        "range": "0 <= rank(a) and rank(a) < TOTAL",
        "last": "implies(rank(a) == TOTAL - 1, a == LAST)",
    },
    timeout_ms=90000,
    note="rank is a bijection between well-formed suffixes and 0..135251, so 'rank increases by one' "
    "enumerates every suffix exactly once",
)

# ---------------------------------------------------------------------------------------------
# ZIDManager.get_next over the ghost map stored in next_ids.json (A-FS, json codec)
# ---------------------------------------------------------------------------------------------
from zorg.storage.sql._zid_manager import ZIDManager  # noqa: E402

PATH = T.rec("Path", {"s": T.str()})
MANAGER = T.rec("ZIDManager", {"_next_ids_path": PATH, "_mutable_next_id_map": T.const(None)}, cls=ZIDManager)


def stored(self):
    """The abstract state: date part -> next suffix, a function of the file system only."""
    return json_map(fs_read(self._next_ids_path)) if fs_exists(self._next_ids_path) else {}


def dp(date):
    return ymd(date)[2:]


def wf_len(s):
    """Length part of wf_suffix, stated separately because wf_suffix is opaque on unbounded strings."""
    return len(s) == 2 or len(s) == 3


def cur(self, date):
    return map_get(stored(self), dp(date), "00")


contract(
    "zorg.storage.sql._zid_manager:ZIDManager.get_next",
    props=["C07"],
    args={"self": MANAGER, "date": T.date()},
    requires={"file-invariant": "wf_len(cur(self, date)) and wf_suffix(cur(self, date))"},
    ensures={
        "format": "result == dp(date) + '#' + old(cur(self, date))",
        "persisted-before-return": "fs_exists(self._next_ids_path)",
        "successor-stored": "wf_len(cur(self, date)) and wf_suffix(cur(self, date)) and rank(cur(self, date)) == rank(old(cur(self, date))) + 1",
        "other-dates-unchanged": "stored(self) == map_set(old(stored(self)), dp(date), cur(self, date))",
        "no-in-memory-state": "self._mutable_next_id_map is None",
    },
    raises={"RuntimeError": "False"},
    note="raises: the statement allows failure only after all 135,252 suffixes of the date have been handed "
    "out; no state of next_ids.json represents that, so any raise is early (F2: cur == 'zzz')",
)

lemma(
    "C07/history-fresh",
    props=["C07"],
    vars={"H": T.map(T.int(), T.bool()), "nxt": T.int(), "r": T.int()},
    assumes={
        "inv": "forall(None, None, lambda q: (q in H) == (0 <= q and q < nxt))",
        "nonneg": "0 <= nxt",
    },
    shows={
        "fresh": "not (nxt in H)",
        "inv-preserved": "(r in map_set(H, nxt, True)) == (0 <= r and r < nxt + 1)",
    },
    note="per date: H = ranks handed out, nxt = rank of the stored suffix. get_next returns the suffix of rank "
    "nxt and stores rank nxt+1 (contract clauses format/successor-stored), so the returned suffix was never "
    "handed out before and the invariant H = [0, nxt) is kept; restart is the identity because the abstract "
    "state `stored` is a function of the file system only (clause no-in-memory-state).",
)

lemma(
    "C07/zid-injective",
    props=["C07"],
    vars={"d1": T.str(), "d2": T.str(), "s1": T.str(), "s2": T.str()},
    assumes={"dates": "len(d1) == 6 and len(d2) == 6"},
    shows={"injective": "implies(d1 + '#' + s1 == d2 + '#' + s2, d1 == d2 and s1 == s2)"},
    note="ZIDs of different dates or different suffixes are different strings",
)

# ---------------------------------------------------------------------------------------------
# recognition on recompilation: every allocatable ZID satisfies dates.is_zid
# ---------------------------------------------------------------------------------------------


def allocatable(z):
    """YYMMDD#XX or YYMMDD#XXX over the suffix alphabet."""
    return (
        (len(z) == 9 or len(z) == 10)
        and all(c in "0123456789" for c in z[:6])
        and z[6] == "#"
        and all(in_alph(c) for c in z[7:])
    )


contract(
    "zorg.shared.dates:is_zid",
    props=["C07", "C05"],
    args={"zid": T.bstr(9, 10)},
    requires={"allocatable": "allocatable(zid)"},
    ensures={"recognised": "result == True"},
)
