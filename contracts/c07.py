"""C07 - ZIDs are unique, well-formed and recognised by every component.

Spec vocabulary is written from the property statement: the suffix alphabet has 51
characters (51**2 + 51**3 == 135,252), the successor chain enumerates all 2-character
suffixes before the 3-character ones, allocation fails only after the last one.
"""
from engine.spec import T, contract, exists, forall, implies, lemma

# 0-9 A-Z a-z minus the 11 look-alike characters (I O Q S g i j l p q y): 62 - 11 = 51
ALPH = "0123456789ABCDEFGHJKLMNPRTUVWXYZabcdefhkmnorstuvwxz"
assert len(ALPH) == 51 and len(ALPH) ** 2 + len(ALPH) ** 3 == 135252
N = 51


def in_alph(c):
    return c in ALPH


def wf_suffix(s):
    """A well-formed ID suffix: 2 or 3 characters of the alphabet."""
    return (len(s) == 2 or len(s) == 3) and all(in_alph(c) for c in s)


def pos(c):
    """Index of character c in ALPH (0 when absent; only used under wf_suffix)."""
    r = 0
    for k, a in enumerate(ALPH):
        r = k if c == a else r
    return r


def rank(s):
    """Position of suffix s in the successor chain: '00' is 0, 'zz' is 51**2-1, '000' is 51**2."""
    if len(s) == 2:
        return pos(s[0]) * N + pos(s[1])
    return N * N + pos(s[0]) * N * N + pos(s[1]) * N + pos(s[2])


LAST = "zzz"
assert rank("00") == 0 and rank("zz") == N * N - 1 and rank("000") == N * N and rank(LAST) == 135251

contract(
    "zorg.storage.sql._zid_manager:_get_next_id",
    props=["C07"],
    args={"last_id": T.bstr(2, 3)},
    requires={"wf": "wf_suffix(last_id)"},
    ensures={
        "wf": "wf_suffix(result)",
        "rank-successor": "rank(result) == rank(last_id) + 1",
    },
    raises={"RuntimeError": "last_id == LAST"},
    note="complete unrolling: the length is case-split (2|3), so every loop has a concrete bound and "
    "the unwinding assertion is the infeasibility of one more iteration",
)
