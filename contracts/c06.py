"""C06 - the hash map a reindex compares against: no page considered is missed and each entry is the hash of that page's
current content (contracts over the file-system model; `_hash_file` and `strip_zdir` through assumed contracts)."""
import os

from engine.spec import T, contract, fs_read, opaque
from contracts import c16  # noqa: F401  (assumed contract of strip_zdir: result is relative(zdir, path))
from contracts.c16 import relative  # noqa: F401

NP = 3 if os.environ.get("VERIF_TIER") != "thorough" else 4
PATH = T.rec("Path", {"s": T.str()})
H = "zorg.service.handlers:"


from contracts.hashfile import hash_file_of, sha256_of  # noqa: E402,F401


def last_with_key(zdir, paths, k):
    """index of the last path whose relative name is k, or -1"""
    r = -1
    for i in range(len(paths)):
        if relative(zdir, paths[i]) == k:
            r = i
    return r


contract(
    H + "_get_file_hash_map", props=["C06"], args={"zdir": PATH, "paths": T.clist(PATH, 0, NP)}, returns=T.map(T.str(), T.str()),
    list_bound=NP, bounded_note=f"bounded-symbolic: at most {NP} explicit paths; directory, paths and file contents fully symbolic",
    requires={"the-files-exist": "all(fs_exists(p) for p in paths)"},
    frame=True,
    ensures={
        "no-path-is-missed": "all(relative(zdir, p) in result for p in paths)",
        "entry-is-the-hash-of-the-current-content": "all(result[relative(zdir, paths[i])] == sha256_of(fs_read(paths[last_with_key(zdir, paths, relative(zdir, paths[i]))])) for i in range(len(paths)))",
        "nothing-else-is-listed": "forall_str(lambda k: implies(k in result, any(relative(zdir, p) == k for p in paths)))",
        "file-system-untouched": "fs_unchanged()",
    },
)


# ---------------------------------------------------------------------------------------------------------------
# reindex_database (plain reindex): the decision loop against an ABSTRACT index.
#
# Abstract view: the index is a map  page name -> the page content it was compiled from  (ghost `idx`, maintained by the
# stubs of SQLRepo.remove_file_by_name / add_file; walk_zorg_page returns a page that remembers the content it read).
# A freshly created index of a directory is, in this view, { name(p) -> content(p) } over the pages on disk; the
# postcondition says that a plain reindex produces exactly that map - whatever the stored hash map and the old index were,
# as long as they agreed with each other (the invariant every create / reindex establishes, clause `hash-map-describes-the-index`).
# ---------------------------------------------------------------------------------------------------------------
from engine.spec import fs_exists, fs_only_changed, ghost, json_map, opaque as _opaque  # noqa: E402
from zorg.domain.messages import commands as _commands  # noqa: E402
from zorg.domain.models import Page as _Page  # noqa: E402

NPG = 2  # pages on disk and entries of the stored hash map: at most 2 each (names, contents, digests fully symbolic)
RE_BOUNDED = (f"bounded-symbolic: at most {NPG} pages on disk and at most {NPG} entries in the stored hash map (page names, contents and digests "
              "fully symbolic; plain reindex or one explicit page; empty error whitelist)")


@_opaque("bool", always=True)
def has_syntax_errors(content):
    """walk_zorg_page(...).has_errors as a function of the page content (C08 decides what it is)"""
    return False


def _rel(interp, zdir, p):
    from contracts import c16

    return interp.call(interp.wrap_global(c16.relative), [zdir, p], {})


def _reindex_prelude(interp, loc):
    _index_prelude(interp, loc, create=False)


def _create_prelude(interp, loc):
    _index_prelude(interp, loc, create=True)


def _index_prelude(interp, loc, create):
    """cmd: plain reindex of zdir; `pages`: 0..NPG pages on disk with distinct names; the hash file holds a map with 0..NPG
    entries; the error whitelist is empty; `idx`: the abstract index (any map; tied to the hash map by the requires clauses)"""
    import z3
    from engine import models, sym
    from engine.interp import _SymKey
    from zorg.storage.sql import SQLSession
    from zorg.storage.sql._repo import SQLRepo

    ctx = interp.ctx
    zdir = PATH.fresh(ctx, "zdir")
    g = models.fs_state(interp)

    def count(tag):
        n = 0
        while n < NPG and ctx.branch(ctx.fresh(f"{tag}.more{n}", z3.BoolSort()), f"more than {n} {tag}"):
            n += 1
        return n

    pages = [PATH.fresh(ctx, f"page{i}") for i in range(count("pages"))]
    names = [_rel(interp, zdir, p) for p in pages]
    for i, p in enumerate(pages):
        ps = sym.zstr(p.fields["s"])
        g["fs_exists"] = z3.Store(g["fs_exists"], ps, True)
        ctx.assume(z3.Length(sym.zstr(names[i])) > 0)
        for j in range(i):
            ctx.assume(sym.zstr(names[i]) != sym.zstr(names[j]))
            ctx.assume(ps != sym.zstr(pages[j].fields["s"]))
    old_map = {}
    for j in range(count("stored")):
        k = sym.TStr().fresh(ctx, f"stored.name{j}")
        ctx.assume(z3.Length(k.t) > 0)
        for kk in old_map:
            ctx.assume(k.t != sym.zstr(kk.v))
        old_map[_SymKey(k)] = sym.TStr().fresh(ctx, f"stored.digest{j}")
    from contracts import hashfile

    hpath = interp.call(interp.wrap_global(hashfile.hash_file_of), [zdir], {})
    hs = sym.zstr(hpath.fields["s"])
    h0 = ctx.fresh("hashfile.text", z3.StringSort())
    ctx.ghost.setdefault("json_known", {})[models._key(h0)] = old_map
    wl = PATH.fresh(ctx, "whitelist")
    ws = sym.zstr(wl.fields["s"])
    ctx.assume(ws != hs)
    g["fs_exists"] = z3.Store(g["fs_exists"], ws, True)
    g["fs_content"] = z3.Store(g["fs_content"], ws, z3.StringVal(""))
    for p in pages:
        ctx.assume(z3.And(sym.zstr(p.fields["s"]) != hs, sym.zstr(p.fields["s"]) != ws))
    # last store: reading the hash file back simplifies to its text syntactically (the decoder recognises it by that)
    g["fs_exists"] = z3.Store(g["fs_exists"], hs, True)
    g["fs_content"] = z3.Store(g["fs_content"], hs, h0)
    idx = sym.TMap(sym.TStr(), sym.TStr()).fresh(ctx, "idx")
    ctx.ghost["user"] = {"pages": pages, "idx": idx, "whitelist": wl, "zdir": zdir, "stored": old_map}
    repo = sym.Rec("SQLRepo", {}, cls=SQLRepo)
    if create:
        # db create: a fresh (empty) index; the whitelist flag is symbolic
        ctx.assume(idx.has == z3.K(z3.StringSort(), z3.BoolVal(False)))
        loc["cmd"] = sym.Rec("CreateDBCommand", {"zettel_dir": zdir, "update_error_file_whitelist": sym.TBool().fresh(ctx, "update_whitelist")}, cls=_commands.CreateDBCommand)
        loc["session"] = sym.Rec("SQLSession", {"repo": repo, "zdir": zdir}, cls=SQLSession)
        loc["_ghost_zdir"] = zdir
        return
    # plain reindex, or `db reindex PAGE` for one of the pages on disk
    paths = []
    for p in pages:
        if not paths and ctx.branch(ctx.fresh("explicit.path", z3.BoolSort()), "explicit path: this page"):
            paths = [p]
    loc["cmd"] = sym.Rec("ReindexDBCommand", {"zettel_dir": zdir, "paths": paths, "verbose": False}, cls=_commands.ReindexDBCommand)
    loc["session"] = sym.Rec("SQLSession", {"repo": repo, "zdir": zdir}, cls=SQLSession)
    loc["_ghost_zdir"] = zdir


def _stub_all_pages(interp, args, kwargs):
    """every *.zo file under the notes directory (Path.rglob, sorted): the ghost list `pages`"""
    return list(interp.ctx.ghost["user"]["pages"])


def _stub_whitelist(interp, args, kwargs):
    """the error whitelist file of the notes directory (created when missing)"""
    return interp.ctx.ghost["user"]["whitelist"]


def _stub_walk(interp, args, kwargs):
    """compiles the page NAME under the notes directory: the result remembers the content it was compiled from and whether
    that content has syntax errors (a function of the content)"""
    import z3
    from engine import models, sym

    u = interp.ctx.ghost["user"]
    name = args[1].fields["s"] if isinstance(args[1], sym.Rec) else args[1]
    for p in u["pages"]:
        t = sym.eq_term(interp.ctx, name, _rel(interp, u["zdir"], p))
        if t is True or (t is not False and interp.ctx.branch(t, "walk: this page")):
            content = sym.sstr(z3.Select(models.fs_state(interp)["fs_content"], sym.zstr(p.fields["s"])))
            errs = interp.call(interp.wrap_global(has_syntax_errors), [content], {})
            return sym.Rec("Page", {"path": p, "has_errors": errs, "events": sym.PList(None, []), "walked": content}, cls=_Page)
    from engine.ctx import Abort

    raise Abort("walk_zorg_page of a name that is not a page on disk (not reachable: the names come from the pages)")


def _stub_remove(interp, args, kwargs):
    """SQLRepo.remove_file_by_name(name): removes the page and its notes from the index; returns the old page, None if the
    index had no such page"""
    import z3
    from engine import sym

    u = interp.ctx.ghost["user"]
    idx, name = u["idx"], sym.zstr(args[-1])  # (self,) name
    present = z3.Select(idx.has, name)
    u["idx"] = sym.SMap(z3.Store(idx.has, name, False), idx.val, idx.kty, idx.vty)
    if interp.ctx.branch(present, "the index has this page"):
        return sym.Rec("Page", {"path": PATH.fresh(interp.ctx, "oldpage"), "has_errors": False, "events": sym.PList(None, []), "walked": sym.sstr(z3.Select(idx.val, name))}, cls=_Page)
    return None


def _stub_add(interp, args, kwargs):
    """SQLRepo.add_file(page): the index holds the page, compiled from the content the page was walked from"""
    import z3
    from engine import sym

    u = interp.ctx.ghost["user"]
    idx, page = u["idx"], args[-1]  # (self,) page
    name = sym.zstr(_rel(interp, u["zdir"], page.fields["path"]))
    u["idx"] = sym.SMap(z3.Store(idx.has, name, True), z3.Store(idx.val, name, sym.zstr(page.fields["walked"])), idx.kty, idx.vty)
    return None


def _stub_noop(interp, args, kwargs):
    """no effect on the file system or the abstract index (session.commit; _check_for_modified_notes only edits the notes of the
    page object and queues an event - C11)"""
    return None


def on_disk(zdir, k):
    return any(relative(zdir, p) == k for p in ghost("pages"))


def changed(zdir, p):
    """the page is new to the stored hash map or its digest differs"""
    m = ghost("stored")
    return relative(zdir, p) not in m or m[relative(zdir, p)] != sha256_of(fs_read(p))


def considered(cmd, p):
    """plain reindex: every page on disk; `db reindex PATHS`: the given pages"""
    return len(cmd.paths) == 0 or any(q == p for q in cmd.paths)


def considered_name(cmd, zdir, k):
    return any(considered(cmd, p) and relative(zdir, p) == k for p in ghost("pages"))


contract(
    H + "reindex_database", props=["C06"], args={}, prelude=_reindex_prelude, list_bound=NPG, bounded_note=RE_BOUNDED,
    inline=[H + "_get_file_hash_map"],
    stubs={H + "_get_zo_paths_to_index": _stub_all_pages, H + "_get_error_file_whitelist": _stub_whitelist,
           "zorg.service.compiler._api:walk_zorg_page": _stub_walk, "zorg.storage.sql._repo:SQLRepo.remove_file_by_name": _stub_remove,
           "zorg.storage.sql._repo:SQLRepo.add_file": _stub_add, "zorg.storage.sql._session:SQLSession.commit": _stub_noop,
           H + "_check_for_modified_notes": _stub_noop},
    requires={
        "hash-map-describes-the-index (keys)": "forall_str(lambda k: (k in ghost('idx')) == (k in ghost('stored')))",
        "hash-map-describes-the-index (digests)": "all(sha256_of(ghost('idx')[k]) == ghost('stored')[k] for k in ghost('stored').keys())",
        "A-SHA: no collision between a page on disk and an indexed content": "all(implies(sha256_of(fs_read(p)) == sha256_of(ghost('idx')[k]), fs_read(p) == ghost('idx')[k]) for p in ghost('pages') for k in ghost('stored').keys())",
    },
    raises={"RuntimeError": "any(considered(cmd, p) and changed(_ghost_zdir, p) and has_syntax_errors(fs_read(p)) for p in ghost('pages'))"},
    ensures={
        # plain reindex: exactly what a rebuild yields in the abstract view
        "plain: the-index-holds-exactly-the-pages-on-disk": "implies(len(cmd.paths) == 0, forall_str(lambda k: (k in ghost('idx')) == on_disk(_ghost_zdir, k)))",
        "every-page-considered-is-indexed-with-its-current-content": "all(implies(considered(cmd, p), ghost('idx')[relative(_ghost_zdir, p)] == fs_read(p)) for p in ghost('pages'))",
        "plain: the-stored-hash-map-describes-the-new-index": "implies(len(cmd.paths) == 0, forall_str(lambda k: (k in json_map(fs_read(hash_file_of(_ghost_zdir)))) == on_disk(_ghost_zdir, k)))",
        "digests-of-the-pages-considered-are-stored": "all(implies(considered(cmd, p), json_map(fs_read(hash_file_of(_ghost_zdir)))[relative(_ghost_zdir, p)] == sha256_of(fs_read(p))) for p in ghost('pages'))",
        # explicit paths: everything else stays as it was, in the index and in the stored map
        "explicit paths: other-pages-keep-their-index-entry": "implies(len(cmd.paths) > 0, forall_str(lambda k: considered_name(cmd, _ghost_zdir, k) or "
                                                              "((k in ghost('idx')) == (k in old(ghost('idx'))) and implies(k in ghost('idx'), ghost('idx')[k] == old(ghost('idx'))[k]))))",
        "explicit paths: other-pages-keep-their-stored-digest": "implies(len(cmd.paths) > 0, "
                                                                "forall_str(lambda k: (k in json_map(fs_read(hash_file_of(_ghost_zdir)))) == (k in ghost('stored') or considered_name(cmd, _ghost_zdir, k))) and "
                                                                "all(considered_name(cmd, _ghost_zdir, k) or json_map(fs_read(hash_file_of(_ghost_zdir)))[k] == ghost('stored')[k] for k in ghost('stored').keys()))",
        "no-page-is-written": "fs_only_changed(hash_file_of(_ghost_zdir), ghost('whitelist'))",
    },
)


def _stub_notes(interp, args, kwargs):
    """Page.notes of a walked page (only its length is logged here)"""
    return []


contract(
    H + "create_database", props=["C06", "C05"], args={}, prelude=_create_prelude, list_bound=NPG, bounded_note=RE_BOUNDED.replace("plain reindex or one explicit page", "db create into a fresh index"),
    inline=[H + "_get_file_hash_map"],
    stubs={H + "_get_zo_paths_to_index": _stub_all_pages, H + "_get_error_file_whitelist": _stub_whitelist,
           "zorg.service.compiler._api:walk_zorg_page": _stub_walk, "zorg.storage.sql._repo:SQLRepo.add_file": _stub_add,
           "zorg.storage.sql._session:SQLSession.commit": _stub_noop, "zorg.domain.models._page:Page.notes": _stub_notes},
    raises={"RuntimeError": "not cmd.update_error_file_whitelist and any(has_syntax_errors(fs_read(p)) for p in ghost('pages'))"},
    ensures={
        "the-index-holds-exactly-the-pages-on-disk": "forall_str(lambda k: (k in ghost('idx')) == on_disk(_ghost_zdir, k))",
        "every-page-is-indexed-with-its-current-content": "all(ghost('idx')[relative(_ghost_zdir, p)] == fs_read(p) for p in ghost('pages'))",
        "the-stored-hash-map-describes-the-index (establishes the reindex invariant)":
            "forall_str(lambda k: (k in json_map(fs_read(hash_file_of(_ghost_zdir)))) == on_disk(_ghost_zdir, k)) and "
            "all(json_map(fs_read(hash_file_of(_ghost_zdir)))[relative(_ghost_zdir, p)] == sha256_of(fs_read(p)) for p in ghost('pages'))",
        "no-page-is-written": "fs_only_changed(hash_file_of(_ghost_zdir), ghost('whitelist'))",
    },
)
