"""C06 - hash map of the files considered by a reindex (no edit is missed: the map is keyed by every path given)."""
from engine.spec import T, contract, forall, implies
