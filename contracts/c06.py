"""C06 - the hash map a reindex compares against: no page considered is missed and each entry is the hash of that page's
current content (contracts over the file-system model; `_hash_file` and `strip_zdir` through assumed contracts)."""
import os

from engine.spec import T, contract, fs_read, opaque
from contracts import c16  # noqa: F401  (assumed contract of strip_zdir: result is relative(zdir, path))
from contracts.c16 import relative  # noqa: F401

NP = 3 if os.environ.get("VERIF_TIER") != "thorough" else 4
PATH = T.rec("Path", {"s": T.str()})
H = "zorg.service.handlers:"


@opaque("str", always=True)
def sha256_of(content):
    """A-SHA: the digest is a function of the content (collisions are an explicit assumption of the C06 plan)"""
    import hashlib

    return hashlib.sha256(content.encode()).hexdigest()


contract(H + "_hash_file", props=["C06"], assumed=True, args={"filepath": PATH, "chunk_size": T.int()},
         requires={"the-file-exists": "fs_exists(filepath)"},
         result_is="sha256_of(fs_read(filepath))",
         note="ASSUMED: chunked binary read + hashlib; the digest is a function of the file's content")


def last_with_key(zdir, paths, k):
    """index of the last path whose relative name is k, or -1"""
    r = -1
    for i in range(len(paths)):
        if relative(zdir, paths[i]) == k:
            r = i
    return r


contract(
    H + "_get_file_hash_map", props=["C06"], args={"zdir": PATH, "paths": T.clist(PATH, 0, NP)}, returns=T.map(T.str(), T.str()),
    list_bound=NP, bounded_note=f"bounded-symbolic: at most {NP} explicit paths; directory, paths and file contents fully symbolic",
    requires={"the-files-exist": "all(fs_exists(p) for p in paths)"},
    frame=True,
    ensures={
        "no-path-is-missed": "all(relative(zdir, p) in result for p in paths)",
        "entry-is-the-hash-of-the-current-content": "all(result[relative(zdir, paths[i])] == sha256_of(fs_read(paths[last_with_key(zdir, paths, relative(zdir, paths[i]))])) for i in range(len(paths)))",
        "nothing-else-is-listed": "forall_str(lambda k: implies(k in result, any(relative(zdir, p) == k for p in paths)))",
        "file-system-untouched": "fs_unchanged()",
    },
)
