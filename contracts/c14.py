"""C14 - the link name a rename retargets: the page's path relative to the notes directory without its `.zo` extension;
any other extension (template `.zot`, query page `.zoq`) belongs to the name.  The textual replacement itself is decided by
the bounded tier (replace_all chains stay undecided in both solvers, DESIGN.md 2.3)."""
from engine.spec import T, contract
from contracts import c16  # noqa: F401  (assumed contract of strip_zdir: result is relative(zdir, path))
from contracts.c16 import relative  # noqa: F401

PATH = T.rec("Path", {"s": T.str()})


def link_name(name):
    """NAME.zo -> NAME; every other name is kept"""
    return name[:len(name) - 3] if name.endswith(".zo") else name


contract(
    "zorg.shared.common:simplify_fname", props=["C14"], args={"zdir": PATH, "path": PATH}, returns=T.str(), frame=True,
    ensures={"link-name": "result == link_name(relative(zdir, path))",
             "only-the-extension-is-removed": "relative(zdir, path) == result or relative(zdir, path) == result + '.zo'"},
)
