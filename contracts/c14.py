"""C14 contracts (none: see checks/c14.py)."""
