"""Level-1 contracts of the file listener ZorgFileCompiler (C01, C02, C08; DESIGN.md section 3).

Every listener method is verified against a transition contract over the compiler state
`_ZorgFileCompilerState`.  `ctx` is a stub parse-tree context (A-ANTLR-TREE): getText() is a
symbolic string constrained by the token shape of the rule.  `frame=True` makes "nothing else
changed" an obligation over every state field not listed in `modifies`.
"""
import datetime as dt

from engine.spec import T, contract, exists, forall, forall_str, fullmatch, implies, lemma, map_get, map_set, opaque, plist_append, plist_last, today
from zorg.domain.models import H1, H2, H3, H4, Block, Note, Page, TodoPayload
from zorg.domain.types import NoteType
from zorg.service.compiler._file_compiler import ErrorManager, ZorgFileCompiler, _ZorgFileCompilerState

TAG_NAMES = ("areas", "contexts", "links", "people", "projects")
LEVELS = ("file", "h1", "h2", "h3", "h4", "note")
FLAG_OF = {"file": "in_first_comment", "h1": "in_h1_header", "h2": "in_h2_header", "h3": "in_h3_header", "h4": "in_h4_header", "note": "in_note"}

# kind table, from the statement (C01): plain note, open, done, cancelled, blocked, parent todo
KIND = {"-": NoteType.BASIC, "o": NoteType.OPEN_TODO, "x": NoteType.CLOSED_TODO, "~": NoteType.CANCELED_TODO,
        "<": NoteType.BLOCKED_TODO, ">": NoteType.PARENT_TODO}
DEFAULT_PRIORITY = "P3"  # pinned by the repo's own compile snapshots (DESIGN.md appendix A)


def kind_of(ch):
    return (NoteType.OPEN_TODO if ch == "o" else NoteType.CLOSED_TODO if ch == "x" else NoteType.CANCELED_TODO if ch == "~"
            else NoteType.BLOCKED_TODO if ch == "<" else NoteType.PARENT_TODO)


# ---------------------------------------------------------------------------------------------
# symbolic shapes of the objects involved
# ---------------------------------------------------------------------------------------------
def TAGS():
    return T.dictof(TAG_NAMES, T.list(T.str()))


def PROPS():
    return T.map(T.str(), T.str())


BLOCK = T.rec("Block", {"section": T.const(None), "notes": T.plist()}, cls=Block)
H1T = T.rec("H1", {"title": T.str(), "blocks": T.plist(), "page": T.const(None), "h2s": T.plist()}, cls=H1)
H2T = T.rec("H2", {"title": T.str(), "blocks": T.plist(), "h1": T.const(None), "h3s": T.plist()}, cls=H2)
H3T = T.rec("H3", {"title": T.str(), "blocks": T.plist(), "h2": T.const(None), "h4s": T.plist()}, cls=H3)
H4T = T.rec("H4", {"title": T.str(), "blocks": T.plist(), "h3": T.const(None)}, cls=H4)


def STATE():
    f = {
        "zid": T.opt(T.str()),
        "ids_in_note": T.int(0, None),
        "block": T.opt(BLOCK), "h1": T.opt(H1T), "h2": T.opt(H2T), "h3": T.opt(H3T), "h4": T.opt(H4T),
        "in_first_comment": T.bool(), "in_h1_header": T.bool(), "in_h2_header": T.bool(), "in_h3_header": T.bool(),
        "in_h4_header": T.bool(), "in_head": T.bool(), "in_note": T.bool(), "in_quoted_word": T.bool(),
    }
    for lv in LEVELS:
        f[f"{lv}_tags"] = TAGS()
        f[f"{lv}_props"] = PROPS()
    for d in ("file_date", "h1_date", "h2_date", "h3_date", "h4_date", "note_date", "modify_date"):
        f[d] = T.opt(T.date())
    f["todo_priority"] = T.str()
    f["todo_status"] = T.enum(NoteType)
    return T.rec("_ZorgFileCompilerState", f, cls=_ZorgFileCompilerState)


PAGE = T.rec("Page", {"path": T.path(), "has_errors": T.bool(), "events": T.plist(), "h0": T.opt(H1T), "h1s": T.plist()}, cls=Page)
EM = T.rec("ErrorManager", {"errors": T.list(T.str())}, cls=ErrorManager)


def SELF():
    return T.rec("ZorgFileCompiler", {"page": PAGE, "error_manager": EM, "_s": STATE()}, cls=ZorgFileCompiler)


def CTX(text=None, **subs):
    f = {"text": text if text is not None else T.str()}
    for k, v in subs.items():
        f["sub:" + k] = v
    return T.rec("ParserCtx", f)


def CHILD1(text):
    """ctx.children[1].getText(): a context whose second child has the given text"""
    return T.rec("ParserCtx", {"text": T.str(), "children": T.const(None), "_c1": text})


M = "zorg.service.compiler._file_compiler:ZorgFileCompiler."
S_ = "zorg.service.compiler._file_compiler:_ZorgFileCompilerState."


def appended(new, old_, v):
    """new == old_ + [v]"""
    return len(new) == len(old_) + 1 and new[len(old_)] == v and forall(0, len(old_), lambda i: new[i] == old_[i])


def flag_contract(method, field, value, props):
    contract(M + method, props=props, args={"self": SELF(), "ctx": CTX()}, frame=True,
             modifies={f"self._s.{field}": T.bool()}, ensures={"flag": f"self._s.{field} == {value}"})


# ---- simple flag methods (region entry / exit) ----------------------------------------------
flag_contract("enterBase_note", "in_note", True, ["C01", "C02", "C08"])
flag_contract("enterTodo", "in_note", True, ["C01", "C02", "C08"])
flag_contract("enterHead", "in_head", True, ["C02", "C08"])
flag_contract("exitHead", "in_head", False, ["C02", "C08"])
flag_contract("exitComment", "in_first_comment", False, ["C02", "C08"])
flag_contract("enterQuoted_word", "in_quoted_word", True, ["C02", "C08"])
flag_contract("exitQuoted_word", "in_quoted_word", False, ["C02", "C08"])
for k in "1234":
    flag_contract(f"exitH{k}_header", f"in_h{k}_header", False, ["C02", "C08"])

# ---- todo prefix / priority (C01: kind and priority are exactly those written) ----------------
contract(
    M + "enterTodo_prefix", props=["C01", "C08"],
    args={"self": SELF(), "ctx": CTX(T.bstr(1, 1))},
    requires={"token-shape": "ctx.getText() in ('o', 'x', '~', '<', '>')"},
    frame=True, modifies={"self._s.todo_status": T.enum(NoteType)},
    ensures={
        "kind-table": "implies(old(self._s.in_note), self._s.todo_status == kind_of(ctx.getText()))",
        "outside-item-unchanged": "implies(not old(self._s.in_note), self._s.todo_status == old(self._s.todo_status))",
    },
)
contract(
    M + "enterPriority", props=["C01", "C08"],
    args={"self": SELF(), "ctx": CTX(T.bstr(2, 2))},
    requires={"token-shape": "ctx.getText()[0] == 'P' and ctx.getText()[1] in '0123456789'"},
    frame=True, modifies={"self._s.todo_priority": T.str()},
    ensures={"text": "self._s.todo_priority == ctx.getText()"},
)

# ---- enterItem / _reset_note_context: note registers cleared at every item --------------------
_RESET_MOD = {"self._s.zid": T.opt(T.str()), "self._s.ids_in_note": T.int(), "self._s.note_tags": TAGS(), "self._s.note_props": PROPS(),
              "self._s.note_date": T.opt(T.date()), "self._s.modify_date": T.opt(T.date())}
_RESET_ENS = {
    "registers": "self._s.zid is None and self._s.ids_in_note == 0 and self._s.note_date is None and self._s.modify_date is None",
    "note-tags-empty": "all(len(self._s.note_tags[t]) == 0 for t in TAG_NAMES)",
    "note-props-empty": "forall_str_absent(self._s.note_props)",
}


def forall_str_absent(m):
    """m is the empty map"""
    return m == {}


contract(M + "_reset_note_context", props=["C01", "C02", "C08"], args={"self": SELF()}, frame=True, modifies=_RESET_MOD, ensures=_RESET_ENS)
contract(M + "enterItem", props=["C01", "C02", "C08"], args={"self": SELF(), "ctx": CTX()}, frame=True, modifies=_RESET_MOD, ensures=_RESET_ENS)

# ---- section exits reset exactly that level (C02: siblings / later sections never inherit) -----
for k in "1234":
    contract(
        M + f"exitH{k}_section", props=["C02", "C08"], args={"self": SELF(), "ctx": CTX()}, frame=True,
        modifies={f"self._s.h{k}": T.const(None), f"self._s.h{k}_tags": TAGS(), f"self._s.h{k}_date": T.opt(T.date()), f"self._s.h{k}_props": PROPS()},
        ensures={
            "pointer": f"self._s.h{k} is None",
            "date": f"self._s.h{k}_date is None",
            "tags-empty": f"all(len(self._s.h{k}_tags[t]) == 0 for t in TAG_NAMES)",
            "props-empty": f"self._s.h{k}_props == {{}}",
        },
    )

# ---- tag / property routing (C02) ---------------------------------------------------------------
TAGNAME = T.str(regex=None)


def _tagname_prelude(interp, loc):
    """tag_name ranges over the five tag kinds (case split)."""
    import z3

    ctx = interp.ctx
    for t in TAG_NAMES[:-1]:
        if ctx.branch(ctx.fresh("tag_is_" + t, z3.BoolSort()), f"tag_name=={t}"):
            loc["tag_name"] = t
            return
    loc["tag_name"] = TAG_NAMES[-1]


def tag_target(s):
    """store that receives a tag under the current scope flags (None: dropped)"""
    return ("file" if s.in_first_comment else "h1" if s.in_h1_header else "h2" if s.in_h2_header else "h3" if s.in_h3_header
            else "h4" if s.in_h4_header else "note" if s.in_note else "none")


def prop_target(s):
    return ("skip" if s.in_quoted_word else "file" if s.in_head else "h1" if s.in_h1_header else "h2" if s.in_h2_header
            else "h3" if s.in_h3_header else "h4" if s.in_h4_header else "note" if s.in_note else "none")


def only_digits(v):
    return fullmatch("[0-9]*", v)


def tags_unchanged(new, old_):
    return all(new[t] == old_[t] for t in TAG_NAMES)


_tag_ens = {"digits-dropped": "implies(only_digits(tag_value), " + " and ".join(f"tags_unchanged(self._s.{lv}_tags, old(self._s.{lv}_tags))" for lv in LEVELS) + ")"}
for lv in LEVELS:
    others = " and ".join(f"tags_unchanged(self._s.{o}_tags, old(self._s.{o}_tags))" for o in LEVELS if o != lv)
    _tag_ens[f"route-{lv}"] = (
        f"implies(not only_digits(tag_value) and old(tag_target(self._s)) == '{lv}', "
        f"appended(self._s.{lv}_tags[tag_name], old(self._s.{lv}_tags[tag_name]), tag_value) and "
        f"all(self._s.{lv}_tags[t] == old(self._s.{lv}_tags[t]) for t in TAG_NAMES if t != tag_name) and {others})"
    )
_tag_ens["no-scope-dropped"] = "implies(old(tag_target(self._s)) == 'none', " + " and ".join(f"tags_unchanged(self._s.{lv}_tags, old(self._s.{lv}_tags))" for lv in LEVELS) + ")"
contract(
    M + "_add_tag", props=["C02", "C08"],
    args={"self": SELF(), "tag_value": T.str()}, prelude=_tagname_prelude,
    frame=True, modifies={f"self._s.{lv}_tags": TAGS() for lv in LEVELS},
    ensures=_tag_ens,
)

_prop_ens = {}
for lv in LEVELS:
    others = " and ".join(f"self._s.{o}_props == old(self._s.{o}_props)" for o in LEVELS if o != lv)
    _prop_ens[f"route-{lv}"] = (
        f"implies(old(prop_target(self._s)) == '{lv}', self._s.{lv}_props == map_set(old(self._s.{lv}_props), key, value) and {others})"
    )
_prop_ens["skipped-or-no-scope"] = "implies(old(prop_target(self._s)) in ('skip', 'none'), " + " and ".join(f"self._s.{lv}_props == old(self._s.{lv}_props)" for lv in LEVELS) + ")"
contract(
    M + "_add_prop", props=["C02", "C08"],
    args={"self": SELF(), "key": T.str(), "value": T.str()},
    frame=True, modifies={f"self._s.{lv}_props": PROPS() for lv in LEVELS},
    ensures=_prop_ens,
)

# ---- metadata merge (C02: union over scopes, innermost property wins, date precedence) ----------
contract(
    S_ + "create_date", props=["C02", "C01"], args={"self": STATE()}, returns=T.date(), frame=True,
    ensures={
        "precedence": "result == (self.note_date if self.note_date is not None else self.h4_date if self.h4_date is not None else "
                      "self.h3_date if self.h3_date is not None else self.h2_date if self.h2_date is not None else "
                      "self.h1_date if self.h1_date is not None else self.file_date if self.file_date is not None else today())",
    },
)


def merged_get(s, k):
    """innermost scope that defines key k wins: note > h4 > h3 > h2 > h1 > file"""
    return (s.note_props[k] if k in s.note_props else s.h4_props[k] if k in s.h4_props else s.h3_props[k] if k in s.h3_props
            else s.h2_props[k] if k in s.h2_props else s.h1_props[k] if k in s.h1_props else s.file_props[k])


def merged_has(s, k):
    return k in s.note_props or k in s.h4_props or k in s.h3_props or k in s.h2_props or k in s.h1_props or k in s.file_props


# ---- enterId: modify date / ZID / create date of the item (C01, C07 recognition, C08 no-raise) ----
from engine.spec import date_of_y_m_d, date_of_ymd, valid_y_m_d, valid_ymd  # noqa: E402

ZID_RE = "[0-9]{2}[01][0-9][0-3][0-9]#[0-9A-HJ-NP-Za-ikm-z]{2,3}"  # lexer rule ZID (checked against the ATN in checks/c01.py)
DATE_RE = "2[0-9]{3}-[01][0-9]-[0-3][0-9]"                           # lexer rule DATE
ID_TOKEN_RE = f"[0-9A-Za-z_]+|{DATE_RE}|{ZID_RE}|https?.*"            # parser rule priv_id (ID NUM_ID PRIORITY time o x | date | zid | url)


def six_digits(t):
    return fullmatch("[0-9]{6}", t)


def zid_shaped(t):
    return fullmatch(ZID_RE, t)


def is_first_or_second_after_mdate(k, md):
    return k == 1 or (k == 2 and md is not None)


contract(
    M + "enterId", props=["C01", "C07", "C08"], timeout_ms=60000,
    args={"self": SELF(), "ctx": CTX(T.str())},
    requires={"token-shape": "fullmatch(ID_TOKEN_RE, ctx.getText())"},
    frame=True,
    modifies={"self._s.ids_in_note": T.int(), "self._s.modify_date": T.opt(T.date()), "self._s.zid": T.opt(T.str()), "self._s.note_date": T.opt(T.date())},
    ensures={
        "counter": "self._s.ids_in_note == old(self._s.ids_in_note) + (1 if old(self._s.in_note) else 0)",
        "modify-date": "implies(old(self._s.in_note) and old(self._s.ids_in_note) == 0 and six_digits(ctx.getText()) and valid_ymd('20' + ctx.getText()), "
                       "self._s.modify_date == date_of_ymd('20' + ctx.getText()) and self._s.zid == old(self._s.zid) and self._s.note_date == old(self._s.note_date))",
        "zid": "implies(old(self._s.in_note) and is_first_or_second_after_mdate(old(self._s.ids_in_note) + 1, old(self._s.modify_date)) "
               "and zid_shaped(ctx.getText()) and valid_ymd('20' + ctx.getText()[:6]), "
               "self._s.zid == ctx.getText() and self._s.note_date == date_of_ymd('20' + ctx.getText()[:6]) and self._s.modify_date == old(self._s.modify_date))",
        "otherwise-unchanged": "implies(not old(self._s.in_note) or not ("
                               "(old(self._s.ids_in_note) == 0 and six_digits(ctx.getText()) and valid_ymd('20' + ctx.getText())) or "
                               "(is_first_or_second_after_mdate(old(self._s.ids_in_note) + 1, old(self._s.modify_date)) and zid_shaped(ctx.getText()) and valid_ymd('20' + ctx.getText()[:6]))), "
                               "self._s.zid == old(self._s.zid) and self._s.note_date == old(self._s.note_date) and self._s.modify_date == old(self._s.modify_date))",
    },
    note="raises nothing on a conforming tree (C08); a date-shaped word that is not a calendar date is an ordinary word (fix 7427158)",
)

# ---- enterDate: a leading YYYY-MM-DD is the item's create date; in headers / title the scope's date -----
contract(
    M + "enterDate", props=["C01", "C02", "C08"],
    args={"self": SELF(), "ctx": CTX(T.str(), DATE=CTX(T.str()))},
    requires={"token-shape": "fullmatch(DATE_RE, ctx.DATE().getText())"},
    frame=True,
    modifies={f"self._s.{d}": T.opt(T.date()) for d in ("note_date", "h1_date", "h2_date", "h3_date", "h4_date", "file_date")},
    ensures={
        "route": "implies(valid_y_m_d(ctx.DATE().getText()), date_target(old(self._s)) == 'none' or scope_date(self._s, date_target(old(self._s))) == date_of_y_m_d(ctx.DATE().getText()))",
        "others-unchanged": "all((valid_y_m_d(ctx.DATE().getText()) and date_target(old(self._s)) == lv) or scope_date(self._s, lv) == scope_date(old(self._s), lv) for lv in LEVELS)",
    },
)


def date_target(s):
    return ("note" if (s.in_note and s.ids_in_note == 1 and s.note_date is None) else "h4" if s.in_h4_header else "h3" if s.in_h3_header
            else "h2" if s.in_h2_header else "h1" if s.in_h1_header else "file" if s.in_first_comment else "none")


def scope_date(s, lv):
    return (s.note_date if lv == "note" else s.h4_date if lv == "h4" else s.h3_date if lv == "h3" else s.h2_date if lv == "h2"
            else s.h1_date if lv == "h1" else s.file_date)


# ---- section headers / blocks: structure of the page (C01 order, C05 section path) ---------------
def _hdr(k, parent_expr, child_list):
    return {
        "flag": f"self._s.in_h{k}_header == True",
        "section": f"self._s.h{k} is not None and self._s.h{k}.title == ctx.space_atoms().getText().strip() and self._s.h{k}.blocks == []",
    }


contract(
    M + "enterH1_header", props=["C01", "C02", "C08"], args={"self": SELF(), "ctx": CTX(T.str(), space_atoms=CTX(T.str()))}, frame=True,
    modifies={"self._s.in_h1_header": T.bool(), "self._s.h1": T.opt(H1T), "self.page.h1s": T.plist()},
    ensures={**_hdr(1, None, None), "appended-last": "self.page.h1s == plist_append(old(self.page.h1s), self._s.h1)"},
)
contract(
    M + "enterH2_header", props=["C01", "C02", "C08"], args={"self": SELF(), "ctx": CTX(T.str(), space_atoms=CTX(T.str()))}, frame=True,
    modifies={"self._s.in_h2_header": T.bool(), "self._s.h2": T.opt(H2T), "self._s.h1.h2s": T.plist(), "self.page.h0": T.opt(H1T)},
    ensures={
        **_hdr(2, None, None),
        "parent": "(self._s.h1.h2s == plist_append(old(self._s.h1.h2s), self._s.h2)) if old(self._s.h1) is not None else "
                  "(self.page.h0 is not None and plist_last(self.page.h0.h2s) is self._s.h2)",
    },
)
contract(
    M + "enterH3_header", props=["C01", "C02", "C08"], args={"self": SELF(), "ctx": CTX(T.str(), space_atoms=CTX(T.str()))}, frame=True,
    requires={"G2/G6: an h2 section is open": "self._s.h2 is not None"},
    modifies={"self._s.in_h3_header": T.bool(), "self._s.h3": T.opt(H3T), "self._s.h2.h3s": T.plist()},
    ensures={**_hdr(3, None, None), "parent": "self._s.h2.h3s == plist_append(old(self._s.h2.h3s), self._s.h3)"},
)
contract(
    M + "enterH4_header", props=["C01", "C02", "C08"], args={"self": SELF(), "ctx": CTX(T.str(), space_atoms=CTX(T.str()))}, frame=True,
    requires={"G2/G6: an h3 section is open": "self._s.h3 is not None"},
    modifies={"self._s.in_h4_header": T.bool(), "self._s.h4": T.opt(H4T), "self._s.h3.h4s": T.plist()},
    ensures={**_hdr(4, None, None), "parent": "self._s.h3.h4s == plist_append(old(self._s.h3.h4s), self._s.h4)"},
)
contract(
    M + "enterBlock", props=["C01", "C05", "C08"], args={"self": SELF(), "ctx": CTX()}, frame=True,
    modifies={"self._s.block": T.opt(BLOCK), "self._s.h4.blocks": T.plist(), "self._s.h3.blocks": T.plist(), "self._s.h2.blocks": T.plist(),
              "self._s.h1.blocks": T.plist(), "self.page.h0": T.opt(H1T)},
    ensures={
        "fresh-empty-block": "self._s.block is not None and self._s.block.notes == []",
        "implicit-section-exists-when-no-section-is-open": "self._s.h4 is not None or self._s.h3 is not None or self._s.h2 is not None or self._s.h1 is not None or self.page.h0 is not None",
        "attached-to-deepest-open-section": "plist_last(deepest(self).blocks) is self._s.block",
        "nothing-else-attached": "all_other_blocklists_unchanged(self, old(self))",
    },
)


def deepest(c):
    s = c._s
    return s.h4 if s.h4 is not None else s.h3 if s.h3 is not None else s.h2 if s.h2 is not None else s.h1 if s.h1 is not None else c.page.h0


def all_other_blocklists_unchanged(c, o):
    d = deepest(o) if (o._s.h4 is not None or o._s.h3 is not None or o._s.h2 is not None or o._s.h1 is not None) else None
    ok = True
    if o._s.h4 is not None and d is not o._s.h4:
        ok = ok and c._s.h4.blocks == o._s.h4.blocks
    if o._s.h3 is not None and d is not o._s.h3:
        ok = ok and c._s.h3.blocks == o._s.h3.blocks
    if o._s.h2 is not None and d is not o._s.h2:
        ok = ok and c._s.h2.blocks == o._s.h2.blocks
    if o._s.h1 is not None and d is not o._s.h1:
        ok = ok and c._s.h1.blocks == o._s.h1.blocks
    return ok


# ---- tag-like listener methods route through _add_tag (C02) ----------------------------------------
def CTX2():
    """a context with two children (symbol, id): ctx.children[1].getText() is the tag value"""
    return T.rec("ParserCtx", {"text": T.str(), "children": T.clist(CTX(T.str()), 2, 2)})


def tag_effect(tag_name, value_expr, guard="True"):
    ens = {"digits-dropped": f"implies(({guard}) and only_digits({value_expr}), " + " and ".join(f"tags_unchanged(self._s.{lv}_tags, old(self._s.{lv}_tags))" for lv in LEVELS) + ")"}
    for lv in LEVELS:
        others = " and ".join(f"tags_unchanged(self._s.{o}_tags, old(self._s.{o}_tags))" for o in LEVELS if o != lv)
        ens[f"route-{lv}"] = (
            f"implies(({guard}) and not only_digits({value_expr}) and old(tag_target(self._s)) == '{lv}', "
            f"appended(self._s.{lv}_tags['{tag_name}'], old(self._s.{lv}_tags['{tag_name}']), {value_expr}) and "
            f"all(self._s.{lv}_tags[t] == old(self._s.{lv}_tags[t]) for t in TAG_NAMES if t != '{tag_name}') and {others})"
        )
    ens["no-scope-or-guard-dropped"] = f"implies(not ({guard}) or old(tag_target(self._s)) == 'none', " + " and ".join(f"tags_unchanged(self._s.{lv}_tags, old(self._s.{lv}_tags))" for lv in LEVELS) + ")"
    return ens


_TAGMOD = {f"self._s.{lv}_tags": TAGS() for lv in LEVELS}
for meth, tname, vexpr in [
    ("enterArea", "areas", "ctx.children[1].getText()"),
    ("enterContext", "contexts", "ctx.children[1].getText()"),
    ("enterPerson", "people", "ctx.children[1].getText()"),
    ("enterProject", "projects", "ctx.children[1].getText()"),
    ("enterLink", "links", "ctx.children[1].getText()"),
    ("enterGlobal_link", "links", "'global:' + ctx.children[1].getText()"),
    ("enterRef_link", "links", "'ref:' + ctx.children[1].getText()"),
    ("enterZid_link", "links", "'zid:' + ctx.children[1].getText()"),
]:
    contract(M + meth, props=["C02", "C08"], args={"self": SELF(), "ctx": CTX2()}, frame=True, modifies=_TAGMOD, ensures=tag_effect(tname, vexpr))
contract(M + "enterLocal_link", props=["C02", "C08"], args={"self": SELF(), "ctx": CTX2()}, frame=True, modifies=_TAGMOD,
         ensures=tag_effect("links", "'local:' + ctx.children[1].getText()", guard="ctx.children[1].getText() != 'X'"))
contract(M + "enterUrl", props=["C02", "C08"], args={"self": SELF(), "ctx": CTX(T.str())}, frame=True, modifies=_TAGMOD,
         ensures=tag_effect("links", "'x:' + ctx.getText()"))

_prop_ens2 = {}
for lv in LEVELS:
    others = " and ".join(f"self._s.{o}_props == old(self._s.{o}_props)" for o in LEVELS if o != lv)
    _prop_ens2[f"route-{lv}"] = (
        f"implies(old(prop_target(self._s)) == '{lv}', self._s.{lv}_props == map_set(old(self._s.{lv}_props), ctx.id_().getText(), ctx.simple_prop_value().getText()) and {others})"
    )
_prop_ens2["skipped-or-no-scope"] = "implies(old(prop_target(self._s)) in ('skip', 'none'), " + " and ".join(f"self._s.{lv}_props == old(self._s.{lv}_props)" for lv in LEVELS) + ")"
contract(M + "enterSimple_prop", props=["C02", "C08"],
         args={"self": SELF(), "ctx": CTX(T.str(), id_=CTX(T.str()), simple_prop_value=CTX(T.str()))}, frame=True,
         modifies={f"self._s.{lv}_props": PROPS() for lv in LEVELS}, ensures=_prop_ens2)

# ---- merged metadata --------------------------------------------------------------------------------
contract(
    S_ + "properties", props=["C02"], args={"self": STATE()}, returns=PROPS(), frame=True, opaque_call=False,
    ensures={
        "union": "forall_str(lambda k: (k in result) == merged_has(self, k))",
        "innermost-wins": "forall_str(lambda k: implies(k in result, result[k] == merged_get(self, k)))",
    },
)


@opaque("list:str")
def cur_tags(file_l, h1_l, h2_l, h3_l, h4_l, note_l):
    """sorted set of the tags of all six scopes"""
    return sorted(set(list(file_l) + list(h1_l) + list(h2_l) + list(h3_l) + list(h4_l) + list(note_l)))


def cur_tags_of(s, t):
    return cur_tags(s.file_tags[t], s.h1_tags[t], s.h2_tags[t], s.h3_tags[t], s.h4_tags[t], s.note_tags[t])


contract(
    S_ + "_get_current_tags", props=["C02"], args={"self": STATE(), "tag_name": T.str()}, returns=T.listval(T.str()), assumed=True,
    requires={"tag-kind": "tag_name in TAG_NAMES"},
    ensures={"sorted-union": "result == cur_tags_of(self, tag_name)"},
    note="ASSUMED at call sites (sorted(set(...)) of symbolic-length lists is outside the VC generator); checked by the bounded tier",
)


# ---- _add_note: one note per item with exactly what the item says (C01) ------------------------------
def _add_note_prelude(interp, loc):
    import z3
    from engine import sym

    ctx = interp.ctx
    if ctx.branch(ctx.fresh("is_todo", z3.BoolSort()), "todo item"):
        tp = sym.Rec("TodoPayload", {"priority": sym.TStr().fresh(ctx, "payload.priority"), "status": sym.TEnum(NoteType).fresh(ctx, "payload.status")}, cls=TodoPayload)
        loc["extra_kwargs"] = {"todo_payload": tp}
    else:
        loc["extra_kwargs"] = {}


NOTE_BODY = T.opt(T.rec("ParserCtx", {"text": T.str(), "start": T.rec("Token", {"line": T.int(1, None)})}))


def emits(self, note_body):
    return note_body is not None and note_body.getText().strip() != "" and len(self.error_manager.errors) == 0


def new_note(self):
    return plist_last(self._s.block.notes)


contract(
    M + "_add_note", props=["C01", "C02", "C08"],
    args={"self": SELF(), "note_body": NOTE_BODY}, prelude=_add_note_prelude,
    requires={
        "inside-a-block": "self._s.block is not None",
        "no-bullet-property-markers (the bullet scan is served by the bounded tier)": "note_body is None or (':: ' not in note_body.getText().strip() and '::\\n' not in note_body.getText().strip())",
    },
    frame=True, modifies={"self._s.block.notes": T.plist(), "self.page.has_errors": T.bool()},
    ensures={
        "emits-iff": "(self._s.block.notes == plist_append(old(self._s.block.notes), new_note(self))) if old(emits(self, note_body)) else (self._s.block.notes == old(self._s.block.notes))",
        "body-verbatim-up-to-outer-whitespace": "implies(old(emits(self, note_body)), new_note(self).body == note_body.getText().strip())",
        "line": "implies(old(emits(self, note_body)), new_note(self).line_no == note_body.start.line)",
        "zid": "implies(old(emits(self, note_body)), new_note(self).zid == old(self._s.zid))",
        "create-date": "implies(old(emits(self, note_body)), new_note(self).create_date == old(self._s.create_date))",
        "modify-date": "implies(old(emits(self, note_body)), new_note(self).modify_date == (old(self._s.modify_date) if old(self._s.modify_date) is not None else old(self._s.create_date)))",
        "kind-and-priority": "implies(old(emits(self, note_body)), new_note(self).todo_payload == extra_kwargs.get('todo_payload'))",
        "tags": "implies(old(emits(self, note_body)), all(getattr_tags(new_note(self), t) == old(cur_tags_of(self._s, t)) for t in TAG_NAMES))",
        "properties": "implies(old(emits(self, note_body)), new_note(self).properties == old(self._s.properties))",
        "page": "implies(old(emits(self, note_body)), new_note(self).file_path == self.page.path)",
        "flag-only-on-errors": "self.page.has_errors == (old(self.page.has_errors) or old(note_body is not None and note_body.getText().strip() != '' and len(self.error_manager.errors) > 0))",
    },
)


def getattr_tags(n, t):
    return n.areas if t == "areas" else n.contexts if t == "contexts" else n.links if t == "links" else n.people if t == "people" else n.projects


def _add_note_effects(interp, loc, old):
    """Call-site form of `emits-iff`: when the item emits, one fresh Note object is appended to the current
    block (its fields are then constrained by the ensures clauses)."""
    import z3
    from engine import spec as S_
    from engine import sym

    ctx = interp.ctx
    t = S_.eval_clause(interp, ADD_NOTE, "emits(self, note_body)", old, old, None)
    from engine.interp import _as_term

    if ctx.branch(_as_term(t), "_add_note emits"):
        note = NOTE_T.fresh(ctx, "note")
        blk = sym.force(ctx, loc["self"].fields["_s"].fields["block"])
        blk.fields["notes"].tail.append(note)


NOTE_T = T.rec("Note", {
    "body": T.str(), "file_path": T.path(), "line_no": T.int(), "areas": T.listval(T.str()), "block": T.const(None), "contexts": T.listval(T.str()),
    "create_date": T.date(), "links": T.listval(T.str()), "modify_date": T.date(), "people": T.listval(T.str()), "projects": T.listval(T.str()),
    "properties": PROPS(), "todo_payload": T.opt(T.rec("TodoPayload", {"priority": T.str(), "status": T.enum(NoteType)}, cls=TodoPayload)), "zid": T.opt(T.str()),
}, cls=Note)

from engine.spec import REGISTRY as _REG  # noqa: E402

ADD_NOTE = _REG[M + "_add_note"]
ADD_NOTE["effects"] = _add_note_effects
ADD_NOTE["havoc_skip"] = ("self._s.block.notes",)

_EXIT_REQ = {
    "inside-a-block": "self._s.block is not None",
    "no-bullet-property-markers (bounded tier)": "ctx.note_body() is None or (':: ' not in ctx.note_body().getText().strip() and '::\\n' not in ctx.note_body().getText().strip())",
}
_EXIT_COMMON = {
    "emits-iff": "(self._s.block.notes == plist_append(old(self._s.block.notes), new_note(self))) if old(emits(self, ctx.note_body())) else (self._s.block.notes == old(self._s.block.notes))",
    "body": "implies(old(emits(self, ctx.note_body())), new_note(self).body == ctx.note_body().getText().strip())",
    "line": "implies(old(emits(self, ctx.note_body())), new_note(self).line_no == ctx.note_body().start.line)",
    "identity": "implies(old(emits(self, ctx.note_body())), new_note(self).zid == old(self._s.zid) and new_note(self).create_date == old(self._s.create_date))",
    "region-left": "self._s.in_note == False",
}
contract(
    M + "exitBase_note", props=["C01", "C08"], args={"self": SELF(), "ctx": CTX(T.str(), note_body=NOTE_BODY)}, requires=_EXIT_REQ, frame=True,
    modifies={"self._s.block.notes": T.plist(), "self.page.has_errors": T.bool(), "self._s.in_note": T.bool()},
    ensures={**_EXIT_COMMON, "plain-note-has-no-payload": "implies(old(emits(self, ctx.note_body())), new_note(self).todo_payload is None)"},
)
contract(
    M + "exitBase_todo", props=["C01", "C08"], args={"self": SELF(), "ctx": CTX(T.str(), note_body=NOTE_BODY)}, requires=_EXIT_REQ, frame=True,
    modifies={"self._s.block.notes": T.plist(), "self.page.has_errors": T.bool(), "self._s.in_note": T.bool(), "self._s.todo_priority": T.str(), "self._s.todo_status": T.enum(NoteType)},
    ensures={
        **_EXIT_COMMON,
        "payload-is-what-the-prefix-said": "implies(old(emits(self, ctx.note_body())), new_note(self).todo_payload is not None and "
                                           "new_note(self).todo_payload.priority == old(self._s.todo_priority) and new_note(self).todo_payload.status == old(self._s.todo_status))",
        "defaults-restored": "self._s.todo_priority == DEFAULT_PRIORITY and self._s.todo_status == NoteType.OPEN_TODO",
    },
)


def _exit_effects(interp, loc, old):
    """Call-site form of `emits-iff` for the exit listeners (same shape as _add_note's)."""
    from engine import spec as S_
    from engine import sym
    from engine.interp import _as_term

    c = _REG[M + "exitBase_note"]
    t = S_.eval_clause(interp, c, "emits(self, ctx.note_body())", old, old, None)
    if interp.ctx.branch(_as_term(t), "exit listener emits"):
        note = NOTE_T.fresh(interp.ctx, "note")
        blk = sym.force(interp.ctx, loc["self"].fields["_s"].fields["block"])
        blk.fields["notes"].tail.append(note)


for _k in ("exitBase_note", "exitBase_todo"):
    _REG[M + _k]["effects"] = _exit_effects
    _REG[M + _k]["havoc_skip"] = ("self._s.block.notes",)


# ---- enterInline_prop: only the property stores may change (string surgery on the token text is outside the VC generator) ----
contract(
    M + "enterInline_prop", props=["C02", "C08"], assumed=True,
    args={"self": SELF(), "ctx": CTX(T.str())},
    modifies={f"self._s.{lv}_props": PROPS() for lv in LEVELS},
    ensures={"only-the-scope-selected-by-the-flags-may-change":
             "all(old(prop_target(self._s)) == lv or scope_props(self._s, lv) == scope_props(old(self._s), lv) for lv in LEVELS)"},
    note="ASSUMED: `[key:: words]` is parsed with split/slicing; the effect is _add_prop(key, value) for some key/value. Exercised by the bounded tier.",
)


def scope_props(s, lv):
    return (s.file_props if lv == "file" else s.h1_props if lv == "h1" else s.h2_props if lv == "h2" else s.h3_props if lv == "h3"
            else s.h4_props if lv == "h4" else s.note_props)
