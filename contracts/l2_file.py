"""Level-2 walk specification for the file grammar: predicate abstraction, syntactic regions and walk obligations."""
from contracts import c01

M = c01.M

PREDICATES = {
    "fc": "self._s.in_first_comment", "hd": "self._s.in_head", "k1": "self._s.in_h1_header", "k2": "self._s.in_h2_header",
    "k3": "self._s.in_h3_header", "k4": "self._s.in_h4_header", "nt": "self._s.in_note", "qw": "self._s.in_quoted_word",
    "h1n": "self._s.h1 is not None", "h2n": "self._s.h2 is not None", "h3n": "self._s.h3 is not None", "h4n": "self._s.h4 is not None",
    "blkn": "self._s.block is not None", "h0n": "self.page.h0 is not None",
    "ids0": "self._s.ids_in_note == 0", "ids1": "self._s.ids_in_note == 1",
    "zid_none": "self._s.zid is None", "md_none": "self._s.modify_date is None",
    "pr_default": "self._s.todo_priority == DEFAULT_PRIORITY", "st_default": "self._s.todo_status == NoteType.OPEN_TODO",
}
for lv in c01.LEVELS:
    PREDICATES[f"{lv}_tags_empty"] = f"all(len(self._s.{lv}_tags[t]) == 0 for t in TAG_NAMES)"
    PREDICATES[f"{lv}_props_empty"] = f"self._s.{lv}_props == {{}}"
    PREDICATES[f"{lv}_date_none"] = f"self._s.{lv}_date is None"

INITIAL = {n: False for n in PREDICATES}
INITIAL.update(fc=True, ids0=True, zid_none=True, md_none=True, pr_default=True, st_default=True)
for lv in c01.LEVELS:
    INITIAL[f"{lv}_tags_empty"] = INITIAL[f"{lv}_props_empty"] = INITIAL[f"{lv}_date_none"] = True

# control predicates (syntactic flags, which sections / block are open) are tracked relationally; the others per control
# valuation as a three-valued vector
CONTROL = ("fc", "hd", "k1", "k2", "k3", "k4", "nt", "qw", "h1n", "h2n", "h3n", "h4n", "blkn", "h0n")
DATA = tuple(n for n in PREDICATES if n not in CONTROL)
WORD_RULES_ROOT = "space_atoms"

# Alternatives of the grammar that ANTLR's prediction never selects (assumption A-ANTLR-MINALT: when two alternatives of a
# decision derive the same tokens with the same continuation, adaptivePredict resolves the ambiguity to the lower-numbered
# one).  Each entry is accompanied by mechanically checked side conditions (Walk.check_dead_alternatives).
DEAD_ALTERNATIVES = [
    {"rule": "unquoted_word", "callee": "priority", "shadowed_by": "id_group", "tokens": [("PRIORITY",)],
     "why": "a PRIORITY token in word position is always parsed as id_group -> id -> priv_id (alternative 5 of unquoted_word), "
            "never as priority (alternative 11): enterPriority therefore fires only for the `(SPACE priority)?` of base_todo"},
]


def region_fn(rule, callee, region, ghost):
    if rule == "head" and callee == "comment":
        return "TITLE" if ghost == 0 else "HEAD"
    if rule == "item" and callee == "comment":
        return "COMMENT"
    if callee in ("h1_header", "h2_header", "h3_header", "h4_header"):
        return "HDR" + callee[1]
    if callee in ("base_note", "todo"):
        return "ITEM"
    return region


FLAGS = ("fc", "hd", "k1", "k2", "k3", "k4", "nt")
EXPECTED = {
    "TITLE": {"fc", "hd"}, "HEAD": {"hd"}, "HDR1": {"k1"}, "HDR2": {"k2"}, "HDR3": {"k3"}, "HDR4": {"k4"}, "ITEM": {"nt"}, "COMMENT": set(), "NONE": set(),
}


def make_checks(word_rules):
    def g1(point, rule, a, region):
        if point != "enter" or rule not in word_rules:
            return None
        return all(a[f] == (f in EXPECTED[region]) for f in FLAGS)

    def section_entry_clean(point, rule, a, region):
        if point != "enter" or rule not in ("h1_section", "h2_section", "h3_section", "h4_section"):
            return None
        k = rule[1]
        return (not a[f"h{k}n"]) and a[f"h{k}_tags_empty"] and a[f"h{k}_props_empty"] and a[f"h{k}_date_none"]

    def section_exit_clean(point, rule, a, region):
        if point != "exit" or rule not in ("h1_section", "h2_section", "h3_section", "h4_section"):
            return None
        k = rule[1]
        return (not a[f"h{k}n"]) and a[f"h{k}_tags_empty"] and a[f"h{k}_props_empty"] and a[f"h{k}_date_none"]

    def parent_open(point, rule, a, region):
        if point != "enter" or rule not in ("h3_section", "h4_section"):
            return None
        return a["h2n"] if rule == "h3_section" else a["h3n"]

    def item_defaults(point, rule, a, region):
        if point != "enter" or rule != "item":
            return None
        return a["pr_default"] and a["st_default"] and not a["nt"]

    def note_registers_reset(point, rule, a, region):
        if point != "enter" or rule not in ("note", "todo"):
            return None
        return a["ids0"] and a["zid_none"] and a["md_none"] and a["note_tags_empty"] and a["note_props_empty"] and a["note_date_none"] and a["blkn"]

    def end_closed(point, rule, a, region):
        if point != "exit" or rule != "prog":
            return None
        return not any(a[f] for f in FLAGS) and not any(a[f"h{k}n"] for k in "1234")

    return [("L2/G1-flags-encode-the-syntactic-region", g1), ("L2/G3-section-stores-empty-on-entry", section_entry_clean),
            ("L2/G3-section-stores-reset-on-exit", section_exit_clean), ("L2/G6-parent-section-open", parent_open),
            ("L2/G5-todo-registers-at-defaults-at-every-item", item_defaults), ("L2/note-registers-reset-and-block-open-at-every-note", note_registers_reset),
            ("L2/everything-closed-at-the-end", end_closed)]
