"""pyvc path context: path condition, branching by decision vector, obligations.

One `Ctx` = one run of the symbolic interpreter along one path.  Branching is done by
re-execution: `branch(t)` returns a *concrete* bool; the first time a position in the
decision vector is reached both sides are checked for feasibility and the untaken side is
queued (`alts`).  Everything that needs a case split (truthiness of a symbolic value, index
in range, Optional is None, ...) goes through `branch`, so the interpreter itself stays an
ordinary recursive evaluator.
"""
from __future__ import annotations

import subprocess
import tempfile
import time
import os
from dataclasses import dataclass, field
from typing import Any, Optional

import z3


class Abort(Exception):
    """The current path ends here (infeasible, killed after a loop step, ...)."""


class Unsupported(Exception):
    """Construct outside the pyvc subset: the *function* is undecided, never violated."""


class SpecError(Exception):
    """A contract clause could not be evaluated (bad contract)."""


@dataclass
class Obligation:
    name: str
    kind: str  # post / pre@call / raises / invariant-init / invariant-step / assert / lemma / cover
    status: str = "pending"  # proved / refuted / undecided
    backend: str = ""
    time_s: float = 0.0
    model: Optional[dict] = None
    detail: str = ""
    path: str = ""
    tainted: bool = False
    solver_output: str = ""

    def to_json(self) -> dict:
        return {
            "name": self.name,
            "kind": self.kind,
            "status": self.status,
            "backend": self.backend,
            "time_s": round(self.time_s, 4),
            "model": self.model,
            "detail": self.detail,
            "path": self.path,
            "tainted": self.tainted,
            "solver_output": self.solver_output[:2000],
        }


CVC5 = "/usr/bin/cvc5"


def _cvc5_check(assertions: list, timeout_s: float) -> str:
    """Runs the conjunction through /usr/bin/cvc5 --strings-exp. Returns sat/unsat/unknown."""
    if not os.path.exists(CVC5):
        return "unknown"
    s = z3.Solver()
    for a in assertions:
        s.add(a)
    smt = s.to_smt2()
    # z3 prints (set-info ...) and uses logic-free scripts; cvc5 needs a logic.
    smt = "(set-logic ALL)\n" + "\n".join(
        ln for ln in smt.splitlines() if not ln.startswith("(set-info")
    )
    with tempfile.NamedTemporaryFile("w", suffix=".smt2", delete=False) as f:
        f.write(smt)
        p = f.name
    try:
        out = subprocess.run(
            [CVC5, "--strings-exp", f"--tlimit={int(timeout_s * 1000)}", p],
            capture_output=True,
            text=True,
            timeout=timeout_s + 5,
        )
        first = (out.stdout.strip().splitlines() or ["unknown"])[0].strip()
        return first if first in ("sat", "unsat") else "unknown"
    except Exception:
        return "unknown"
    finally:
        try:
            os.unlink(p)
        except OSError:
            pass


class Ctx:
    def __init__(
        self,
        prefix: list[bool],
        *,
        feas_timeout_ms: int = 4000,
        oblig_timeout_ms: int = 10000,
        use_cvc5: bool = True,
        max_branches: int = 4000,
    ) -> None:
        self.solver = z3.Solver()
        self.solver.set("timeout", feas_timeout_ms)
        self.pc: list = []
        self.prefix = prefix
        self.pos = 0
        self.decisions: list[bool] = []
        self.alts: list[list[bool]] = []
        self.obligs: list[Obligation] = []
        self.tainted = False
        self.taint_reasons: list[str] = []
        self.feas_timeout_ms = feas_timeout_ms
        self.oblig_timeout_ms = oblig_timeout_ms
        self.use_cvc5 = use_cvc5
        self.counter = 0
        self.max_branches = max_branches
        self.inputs: dict[str, Any] = {}  # name -> symbolic value (for model extraction)
        self.solver_time = 0.0
        self.feas_queries = 0
        self.trace: list[str] = []  # human-readable decision trail
        self.ghost: dict[str, Any] = {}  # ghost state (fs, clock, ...)

    # ---- symbols -------------------------------------------------------------------
    def fresh_name(self, base: str) -> str:
        self.counter += 1
        return f"{base}!{self.counter}"

    def fresh(self, base: str, sort) -> Any:
        return z3.Const(self.fresh_name(base), sort)

    # ---- path condition ------------------------------------------------------------
    def assume(self, t) -> None:
        if isinstance(t, bool):
            if not t:
                raise Abort("assume False")
            return
        t = z3.simplify(t)
        if z3.is_true(t):
            return
        if z3.is_false(t):
            raise Abort("assume False")
        self.solver.add(t)
        self.pc.append(t)

    def taint(self, why: str) -> None:
        self.tainted = True
        self.taint_reasons.append(why)

    def _check(self, *extra) -> str:
        t0 = time.time()
        self.feas_queries += 1
        r = self.solver.check(*extra)
        dt_ = time.time() - t0
        if dt_ > 1.0 and os.environ.get("PYVC_DUMP_SLOW"):
            s2 = z3.Solver()
            for a in self.pc:
                s2.add(a)
            for e in extra:
                s2.add(e)
            with open(os.environ["PYVC_DUMP_SLOW"], "w") as fh:
                fh.write(f"; {dt_:.2f}s result={r}\n" + s2.to_smt2())
        self.solver_time += dt_
        return str(r)

    def feasible(self) -> bool:
        return self._check() != "unsat"

    def branch(self, t, note: str = "") -> bool:
        """Returns a concrete truth value for `t` on this path (forks if both are feasible)."""
        if isinstance(t, bool):
            return t
        t = z3.simplify(t)
        if z3.is_true(t):
            return True
        if z3.is_false(t):
            return False
        if self.pos < len(self.prefix):
            d = self.prefix[self.pos]
        else:
            if len(self.decisions) > self.max_branches:
                raise Unsupported("branch budget exceeded on one path")
            rt = self._check(t)
            if rt == "unsat":
                d = False
            else:
                rf = self._check(z3.Not(t))
                if rf == "unsat":
                    d = True
                else:
                    d = True
                    self.alts.append(self.decisions + [False])
        self.pos += 1
        self.decisions.append(d)
        self.trace.append(("+" if d else "-") + note)
        self.assume(t if d else z3.Not(t))
        return d

    def must(self, t) -> bool:
        """True iff pc => t is proved (no fork, no assumption)."""
        if isinstance(t, bool):
            return t
        t = z3.simplify(t)
        if z3.is_true(t):
            return True
        return self._check(z3.Not(t)) == "unsat"

    # ---- obligations ---------------------------------------------------------------
    def obligate(self, name: str, t, kind: str = "post", detail: str = "") -> Obligation:
        ob = Obligation(name=name, kind=kind, detail=detail, path="".join(
            "T" if d else "F" for d in self.decisions), tainted=self.tainted)
        if isinstance(t, bool):
            t = z3.BoolVal(t)
        t = z3.simplify(t)
        t0 = time.time()
        if z3.is_true(t):
            ob.status, ob.backend = "proved", "simplify"
        else:
            self.solver.push()
            self.solver.set("timeout", self.oblig_timeout_ms)
            self.solver.add(z3.Not(t))
            r = str(self.solver.check())
            if r == "unsat":
                ob.status, ob.backend = "proved", "z3"
            elif r == "sat":
                ob.backend = "z3"
                m = self.solver.model()
                ob.model = self.extract_model(m)
                ob.solver_output = str(m)[:4000]
                ob.status = "undecided" if self.tainted else "refuted"
                if self.tainted:
                    ob.detail += " | tainted: " + "; ".join(self.taint_reasons)
            else:
                ob.backend = "z3"
                ob.solver_output = "z3: unknown (" + self.solver.reason_unknown() + ")"
                ob.status = "undecided"
            self.solver.pop()
            self.solver.set("timeout", self.feas_timeout_ms)
            if ob.status == "undecided" and r == "unknown" and self.use_cvc5:
                rc = _cvc5_check(self.pc + [z3.Not(t)], self.oblig_timeout_ms / 1000.0)
                if rc == "unsat":
                    ob.status, ob.backend = "proved", "cvc5"
                else:
                    ob.solver_output += f" ; cvc5: {rc}"
        ob.time_s = time.time() - t0
        self.solver_time += ob.time_s
        self.obligs.append(ob)
        # standard assert-then-assume: later obligations on this path are checked modulo this one
        if ob.status != "proved":
            try:
                self.assume(t)
            except Abort:
                raise
        else:
            self.assume(t)
        return ob

    def extract_model(self, m) -> dict:
        from . import sym

        out = {}
        for k, v in self.inputs.items():
            try:
                out[k] = sym.concretize(v, m)
            except Exception as e:  # pragma: no cover - best effort
                out[k] = f"<unextractable: {e}>"
        return out
