"""pyvc path context: path condition, branching by decision vector, obligations.

One `Ctx` = one run of the symbolic interpreter along one path.  Branching is done by
re-execution: `branch(t)` returns a *concrete* bool; the first time a position in the
decision vector is reached both sides are checked for feasibility and the untaken side is
queued (`alts`).  Everything that needs a case split (truthiness of a symbolic value, index
in range, Optional is None, ...) goes through `branch`, so the interpreter itself stays an
ordinary recursive evaluator.
"""
from __future__ import annotations

import subprocess
import tempfile
import time
import os
from dataclasses import dataclass, field
from typing import Any, Optional

import z3


class Abort(Exception):
    """The current path ends here (infeasible, killed after a loop step, ...)."""


class Unsupported(Exception):
    """Construct outside the pyvc subset: the *function* is undecided, never violated."""


class SpecError(Exception):
    """A contract clause could not be evaluated (bad contract)."""


@dataclass
class Obligation:
    name: str
    kind: str  # post / pre@call / raises / invariant-init / invariant-step / assert / lemma / cover
    status: str = "pending"  # proved / refuted / undecided
    backend: str = ""
    time_s: float = 0.0
    model: Optional[dict] = None
    detail: str = ""
    path: str = ""
    tainted: bool = False
    solver_output: str = ""

    def to_json(self) -> dict:
        return {
            "name": self.name,
            "kind": self.kind,
            "status": self.status,
            "backend": self.backend,
            "time_s": round(self.time_s, 4),
            "model": self.model,
            "detail": self.detail,
            "path": self.path,
            "tainted": self.tainted,
            "solver_output": self.solver_output[:2000],
        }


CVC5 = "/usr/bin/cvc5"


def _cvc5_check(assertions: list, timeout_s: float) -> str:
    """Runs the conjunction through /usr/bin/cvc5 --strings-exp. Returns sat/unsat/unknown."""
    if not os.path.exists(CVC5):
        return "unknown"
    s = z3.Solver()
    for a in assertions:
        s.add(a)
    smt = s.to_smt2()
    # z3 prints (set-info ...) and uses logic-free scripts; cvc5 needs a logic.
    smt = "(set-logic ALL)\n" + "\n".join(
        ln for ln in smt.splitlines() if not ln.startswith("(set-info")
    )
    with tempfile.NamedTemporaryFile("w", suffix=".smt2", delete=False) as f:
        f.write(smt)
        p = f.name
    try:
        out = subprocess.run(
            [CVC5, "--strings-exp", f"--tlimit={int(timeout_s * 1000)}", p],
            capture_output=True,
            text=True,
            timeout=timeout_s + 5,
        )
        first = (out.stdout.strip().splitlines() or ["unknown"])[0].strip()
        return first if first in ("sat", "unsat") else "unknown"
    except Exception:
        return "unknown"
    finally:
        try:
            os.unlink(p)
        except OSError:
            pass


_COMMUTATIVE = None
_AC = {z3.Z3_OP_AND, z3.Z3_OP_OR, z3.Z3_OP_ADD, z3.Z3_OP_MUL, z3.Z3_OP_RE_UNION, z3.Z3_OP_RE_INTERSECT}


def _term_key(t) -> str:
    """Canonical structural hash of a term: children of commutative operators are sorted, because
    z3.simplify orders them by internal AST ids, which differ between re-executions of a path."""
    import hashlib

    global _COMMUTATIVE
    if _COMMUTATIVE is None:
        _COMMUTATIVE = {z3.Z3_OP_AND, z3.Z3_OP_OR, z3.Z3_OP_ADD, z3.Z3_OP_MUL, z3.Z3_OP_EQ, z3.Z3_OP_DISTINCT,
                        z3.Z3_OP_RE_UNION, z3.Z3_OP_RE_INTERSECT, z3.Z3_OP_IFF, z3.Z3_OP_XOR}
    memo: dict = {}

    def h(x) -> str:
        i = x.get_id()
        if i in memo:
            return memo[i]
        if z3.is_quantifier(x):
            r = hashlib.sha1(("Q%d%s|" % (x.num_vars(), "L" if x.is_lambda() else "A" if x.is_forall() else "E") + h(x.body())).encode()).hexdigest()
        elif z3.is_var(x):
            r = "V%d" % z3.get_var_index(x)
        elif z3.is_app(x):
            d = x.decl()
            k = d.kind()
            if k in _AC:
                # associative-commutative: flatten nested applications of the same operator, sort the leaves
                leaves, stack = [], list(x.children())
                while stack:
                    c = stack.pop()
                    if z3.is_app(c) and c.decl().kind() == k:
                        stack.extend(c.children())
                    else:
                        leaves.append(h(c))
                ch = sorted(leaves)
            else:
                ch = [h(c) for c in x.children()]
                if k in _COMMUTATIVE:
                    ch.sort()
            name = d.name() if x.num_args() or d.kind() == z3.Z3_OP_UNINTERPRETED else x.sexpr()
            r = hashlib.sha1((str(d.kind()) + ":" + name + "(" + ",".join(ch) + ")").encode()).hexdigest()
        else:
            r = hashlib.sha1(x.sexpr().encode()).hexdigest()
        memo[i] = r
        return r

    return h(t)


class Ctx:
    def __init__(
        self,
        prefix,
        *,
        feas_timeout_ms: int = 1500,
        oblig_timeout_ms: int = 10000,
        use_cvc5: bool = True,
        max_branches: int = 4000,
    ) -> None:
        self.solver = z3.Solver()
        self.solver.set("timeout", feas_timeout_ms)
        self.pc: list = []
        self.prefix = dict(prefix) if prefix else {}
        self.pos = 0
        self.decisions: dict = {}
        self.alts: list[dict] = []
        self.obligs: list[Obligation] = []
        self.tainted = False
        self.taint_reasons: list[str] = []
        self.feas_timeout_ms = feas_timeout_ms
        self.oblig_timeout_ms = oblig_timeout_ms
        self.use_cvc5 = use_cvc5
        self.counter = 0
        self.max_branches = max_branches
        self.inputs: dict[str, Any] = {}  # name -> symbolic value (for model extraction)
        self.solver_time = 0.0
        self.feas_queries = 0
        self.trace: list[str] = []  # human-readable decision trail
        self.ghost: dict[str, Any] = {}  # ghost state (fs, clock, ...)

    # ---- symbols -------------------------------------------------------------------
    def fresh_name(self, base: str) -> str:
        self.counter += 1
        return f"{base}!{self.counter}"

    def fresh(self, base: str, sort) -> Any:
        return z3.Const(self.fresh_name(base), sort)

    # ---- path condition ------------------------------------------------------------
    def assume(self, t) -> None:
        if isinstance(t, bool):
            if not t:
                raise Abort("assume False")
            return
        t = z3.simplify(t)
        if z3.is_true(t):
            return
        if z3.is_false(t):
            raise Abort("assume False")
        self.solver.add(t)
        self.pc.append(t)

    def taint(self, why: str) -> None:
        self.tainted = True
        self.taint_reasons.append(why)

    def _syms(self, t) -> frozenset:
        """Uninterpreted symbols (constants and functions) occurring in a term (cached by AST id)."""
        cache = self.__dict__.setdefault("_symcache", {})
        key = t.get_id()
        if key in cache:
            return cache[key][1]
        out = set()
        seen = set()
        stack = [t]
        while stack:
            x = stack.pop()
            i = x.get_id()
            if i in seen:
                continue
            seen.add(i)
            if z3.is_quantifier(x):
                stack.append(x.body())
                continue
            if z3.is_app(x):
                d = x.decl()
                if d.kind() == z3.Z3_OP_UNINTERPRETED:
                    out.add(d.name())
                stack.extend(x.children())
        r = frozenset(out)
        cache[key] = (t, r)  # keeping t alive pins its AST id (ids of freed ASTs are reused)
        return r

    def _slice(self, extra) -> list:
        """Constraint independence: the assertions of pc that (transitively) share a symbol with `extra`.
        pc is satisfiable by construction, and parts over disjoint symbols are independent, so
        sat(slice and extra) <=> sat(pc and extra)."""
        want = set()
        for e in extra:
            want |= self._syms(e)
        items = [(a, self._syms(a)) for a in self.pc]
        chosen = [False] * len(items)
        changed = True
        while changed:
            changed = False
            for i, (a, sy) in enumerate(items):
                if not chosen[i] and (sy & want):
                    chosen[i] = True
                    if not sy <= want:
                        want |= sy
                        changed = True
        return [a for (a, _), c in zip(items, chosen) if c]

    def _check(self, *extra) -> str:
        t0 = time.time()
        self.feas_queries += 1
        if extra and len(self.pc) > 8:
            sl = self._slice(extra)
            if len(sl) < len(self.pc):
                s2 = z3.Solver()
                s2.set("timeout", self.feas_timeout_ms)
                for a in sl:
                    s2.add(a)
                r = s2.check(*extra)
                if str(r) == "unknown" and self.use_cvc5:
                    rc = _cvc5_check(sl + list(extra), 5.0)
                    if rc in ("sat", "unsat"):
                        r = rc
                self.solver_time += time.time() - t0
                return str(r)
        r = self.solver.check(*extra)
        if str(r) == "unknown" and self.use_cvc5:
            # z3's sequence solver gives up on many satisfiable string constraints that cvc5 decides at once
            rc = _cvc5_check(self.pc + list(extra), 5.0)
            self.cvc5_feas = getattr(self, "cvc5_feas", 0) + 1
            if rc in ("sat", "unsat"):
                r = rc
        dt_ = time.time() - t0
        if dt_ > 1.0 and os.environ.get("PYVC_DUMP_SLOW"):
            s2 = z3.Solver()
            for a in self.pc:
                s2.add(a)
            for e in extra:
                s2.add(e)
            with open(os.environ["PYVC_DUMP_SLOW"], "w") as fh:
                fh.write(f"; {dt_:.2f}s result={r}\n" + s2.to_smt2())
        self.solver_time += dt_
        return str(r)

    def feasible(self) -> bool:
        return self._check() != "unsat"

    def branch(self, t, note: str = "") -> bool:
        """Returns a concrete truth value for `t` on this path (forks if both are feasible)."""
        if isinstance(t, bool):
            return t
        t = z3.simplify(t)
        if z3.is_true(t):
            return True
        if z3.is_false(t):
            return False
        qv = getattr(self, "quant_vars", None)
        if qv and (self._syms(t) & qv):
            # a case split on a term that mentions a bound variable of a quantified clause would fix the variable's value
            # for the whole path: the clause must be written branch-free (no dict subscript / Optional dereference by it)
            raise Unsupported("case split on a quantified variable inside forall/exists")
        if getattr(self, "spec_depth", 0) > 0:
            # speculative evaluation never touches the decision vector: determined branches are followed,
            # a real fork aborts the speculation (the caller then case-splits on its guard)
            if self._check(t) == "unsat":
                self.assume(z3.Not(t))
                return False
            if self._check(z3.Not(t)) == "unsat":
                self.assume(t)
                return True
            raise SpecError("fork inside speculative evaluation")
        # decisions are keyed by the branching term itself (a path fixes the truth value of a term), so a
        # replay stays aligned even if a solver verdict (e.g. a timeout) differs between two runs
        key = _term_key(t)
        if key in self.prefix:
            d = self.prefix[key]
        elif key in self.decisions:
            d = self.decisions[key]
        else:
            if len(self.decisions) > self.max_branches:
                raise Unsupported("branch budget exceeded on one path")
            rt = self._check(t)
            if rt == "unsat":
                d = False
            else:
                rf = self._check(z3.Not(t))
                if rf == "unsat":
                    d = True
                else:
                    d = True
                    alt = dict(self.prefix)
                    alt.update(self.decisions)
                    alt[key] = False
                    self.alts.append(alt)
        self.pos += 1
        self.decisions[key] = d
        self.trace.append(("+" if d else "-") + note)
        self.assume(t if d else z3.Not(t))
        return d

    def must(self, t) -> bool:
        """True iff pc => t is proved (no fork, no assumption)."""
        if isinstance(t, bool):
            return t
        t = z3.simplify(t)
        if z3.is_true(t):
            return True
        return self._check(z3.Not(t)) == "unsat"

    # ---- speculative evaluation (specification guards) ------------------------------
    def checkpoint(self):
        self.spec_depth = getattr(self, "spec_depth", 0) + 1
        self.solver.push()
        return (len(self.pc), dict(self.decisions), self.pos, len(self.alts), len(self.obligs), len(self.trace), self.counter, self.tainted)

    def commit(self, cp):
        self.spec_depth -= 1

    def rollback(self, cp):
        self.spec_depth -= 1
        self.solver.pop()
        npc, nd, pos, na, no, nt, cnt, taint = cp
        del self.pc[npc:]
        self.decisions = nd
        self.pos = pos
        del self.alts[na:]
        del self.obligs[no:]
        del self.trace[nt:]
        self.counter = cnt
        self.tainted = taint

    # ---- obligations ---------------------------------------------------------------
    def obligate(self, name: str, t, kind: str = "post", detail: str = "") -> Obligation:
        ob = Obligation(name=name, kind=kind, detail=detail, path="".join(
            "T" if d else "F" for d in self.decisions.values()), tainted=self.tainted)
        if isinstance(t, bool):
            t = z3.BoolVal(t)
        t = z3.simplify(t)
        t0 = time.time()
        if z3.is_true(t):
            ob.status, ob.backend = "proved", "simplify"
        elif getattr(self, "defer_obligations", False):
            # Level 2 summaries: the obligation is decided later, once per abstract pre-state, against pc[:pc_len]
            ob.status, ob.term, ob.pc_len = "deferred", t, len(self.pc)
            self.obligs.append(ob)
            self.assume(t)
            return ob
        else:
            self.solver.push()
            self.solver.add(z3.Not(t))
            # portfolio: z3 briefly, then cvc5 (much stronger on string constraints), then z3 with the full budget
            self.solver.set("timeout", min(3000, self.oblig_timeout_ms))
            r = str(self.solver.check())
            if r == "unknown" and self.use_cvc5 and self.oblig_timeout_ms > 3000:
                rc = _cvc5_check(self.pc + [z3.Not(t)], min(20.0, self.oblig_timeout_ms / 1000.0))
                if rc == "unsat":
                    ob.status, ob.backend = "proved", "cvc5"
                    r = "cvc5-unsat"
                elif rc == "sat":
                    self.solver.set("timeout", self.oblig_timeout_ms)
                    r = str(self.solver.check())  # z3 must produce the model (or stay unknown)
                else:
                    self.solver.set("timeout", self.oblig_timeout_ms)
                    r = str(self.solver.check())
            if r == "cvc5-unsat":
                pass
            elif r == "unsat":
                ob.status, ob.backend = "proved", "z3"
            elif r == "sat":
                ob.backend = "z3"
                m = self.solver.model()
                ob.model = self.extract_model(m)
                ob.solver_output = str(m)[:4000]
                ob.status = "undecided" if self.tainted else "refuted"
                if self.tainted:
                    ob.detail += " | tainted: " + "; ".join(self.taint_reasons)
            else:
                ob.backend = "z3"
                ob.solver_output = "z3: unknown (" + self.solver.reason_unknown() + ")"
                ob.status = "undecided"
            self.solver.pop()
            self.solver.set("timeout", self.feas_timeout_ms)
            if ob.status == "undecided" and r == "unknown" and self.use_cvc5:
                rc = _cvc5_check(self.pc + [z3.Not(t)], self.oblig_timeout_ms / 1000.0)
                if rc == "unsat":
                    ob.status, ob.backend = "proved", "cvc5"
                else:
                    ob.solver_output += f" ; cvc5: {rc}"
        ob.time_s = time.time() - t0
        if ob.time_s > 1.0 and os.environ.get("PYVC_DEBUG"):
            import sys as _s
            print(f"[pyvc]   slow obligation {name} {ob.status} {ob.backend} {ob.time_s:.1f}s", file=_s.stderr, flush=True)
        self.solver_time += ob.time_s
        self.obligs.append(ob)
        # standard assert-then-assume: later obligations on this path are checked modulo this one
        if ob.status != "proved":
            try:
                self.assume(t)
            except Abort:
                raise
        else:
            self.assume(t)
        return ob

    def extract_model(self, m) -> dict:
        from . import sym

        out = {}
        for k, v in self.inputs.items():
            try:
                out[k] = sym.concretize(v, m)
            except Exception as e:  # pragma: no cover - best effort
                out[k] = f"<unextractable: {e}>"
        return out
