"""Python `re` subset -> z3 regular expressions (used by the spec primitive fullmatch and by
library models of re.match on symbolic strings).  Supported: literals, escapes (\\d \\w \\s and
escaped punctuation), classes with ranges and negation (complement within code points 0..127:
ASCII input domain), groups (capturing / non-capturing / named - captures ignored), alternation,
* + ? {m} {m,n}, anchors ^ $ at the ends.  Anything else raises ValueError."""
from __future__ import annotations

import z3

_ASCII = z3.Range(z3.StringVal(chr(0)), z3.StringVal(chr(127)))


def _ch(c):
    return z3.Re(z3.StringVal(c))


def _union(parts):
    parts = list(parts)
    if not parts:
        return z3.Empty(z3.ReSort(z3.StringSort()))
    return parts[0] if len(parts) == 1 else z3.Union(*parts)


_ESC = {
    "d": lambda: z3.Range(z3.StringVal("0"), z3.StringVal("9")),
    "w": lambda: _union([z3.Range(z3.StringVal("0"), z3.StringVal("9")), z3.Range(z3.StringVal("a"), z3.StringVal("z")), z3.Range(z3.StringVal("A"), z3.StringVal("Z")), _ch("_")]),
    "s": lambda: _union([_ch(c) for c in " \t\n\r\x0b\x0c"]),
    "n": lambda: _ch("\n"),
    "t": lambda: _ch("\t"),
}


class _P:
    def __init__(self, pat):
        self.p, self.i = pat, 0

    def peek(self):
        return self.p[self.i] if self.i < len(self.p) else None

    def eat(self):
        c = self.p[self.i]
        self.i += 1
        return c

    def alt(self):
        parts = [self.seq()]
        while self.peek() == "|":
            self.eat()
            parts.append(self.seq())
        return _union(parts)

    def seq(self):
        items = []
        while self.peek() is not None and self.peek() not in "|)":
            items.append(self.quant())
        if not items:
            return z3.Re(z3.StringVal(""))
        return items[0] if len(items) == 1 else z3.Concat(*items)

    def quant(self):
        a = self.atom()
        while self.peek() is not None and self.peek() in "*+?{":
            c = self.peek()
            if c == "{":
                j = self.p.index("}", self.i)
                body = self.p[self.i + 1 : j]
                self.i = j + 1
                if "," in body:
                    lo, hi = body.split(",")
                    lo = int(lo or 0)
                    if hi == "":
                        a = z3.Concat(z3.Loop(a, lo, lo), z3.Star(a)) if lo else z3.Star(a)
                    else:
                        a = z3.Loop(a, lo, int(hi))
                else:
                    a = z3.Loop(a, int(body), int(body))
            else:
                self.eat()
                a = {"*": z3.Star, "+": z3.Plus, "?": z3.Option}[c](a)
            if self.peek() == "?":
                self.eat()  # lazy quantifiers: same language
        return a

    def atom(self):
        c = self.eat()
        if c == "(":
            if self.peek() == "?":
                self.eat()
                k = self.eat()
                if k == ":":
                    pass
                elif k == "P" and self.peek() == "<":
                    self.i = self.p.index(">", self.i) + 1
                else:
                    raise ValueError(f"unsupported group (?{k}")
            r = self.alt()
            if self.eat() != ")":
                raise ValueError("unbalanced group")
            return r
        if c == "[":
            return self.cls()
        if c == ".":
            return z3.Diff(_ASCII, _ch("\n")) if hasattr(z3, "Diff") else z3.Intersect(_ASCII, z3.Complement(_ch("\n")))
        if c == "\\":
            e = self.eat()
            if e in _ESC:
                return _ESC[e]()
            if e.isalnum():
                raise ValueError(f"unsupported escape \\{e}")
            return _ch(e)
        if c in "^$":
            return z3.Re(z3.StringVal(""))
        return _ch(c)

    def cls(self):
        neg = False
        if self.peek() == "^":
            self.eat()
            neg = True
        parts = []
        first = True
        while True:
            c = self.eat()
            if c == "]" and not first:
                break
            first = False
            if c == "\\":
                e = self.eat()
                if e in _ESC:
                    parts.append(_ESC[e]())
                    continue
                c = e
            if self.peek() == "-" and self.p[self.i + 1] != "]":
                self.eat()
                hi = self.eat()
                if hi == "\\":
                    hi = self.eat()
                parts.append(z3.Range(z3.StringVal(c), z3.StringVal(hi)))
            else:
                parts.append(_ch(c))
        u = _union(parts)
        return z3.Intersect(_ASCII, z3.Complement(u)) if neg else u


def to_z3(pattern: str):
    p = _P(pattern)
    r = p.alt()
    if p.i != len(pattern):
        raise ValueError(f"regex parse error at {p.i} in {pattern!r}")
    return r
