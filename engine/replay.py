"""Native replay of counter-models and known-finding witnesses on the real code."""
from __future__ import annotations

import ast
import copy
import datetime as dt
import importlib
import json
import traceback
from typing import Any, Optional


def _resolve(key: str):
    mod, qual = key.split(":")
    obj: Any = importlib.import_module(mod)
    for part in qual.split("."):
        obj = getattr(obj, part)
    return obj


def _from_json(v):
    if isinstance(v, dict):
        if "__date_ordinal__" in v:
            try:
                return dt.date.fromordinal(max(1, min(3652059, v["__date_ordinal__"])))
            except Exception:
                return dt.date(2024, 1, 1)
        if "__enum__" in v:
            cls = _resolve(v["__enum__"])
            return cls[v["name"]]
        return {k: _from_json(x) for k, x in v.items()}
    if isinstance(v, list):
        return [_from_json(x) for x in v]
    return v


def to_json(v):
    import enum

    if isinstance(v, enum.Enum):
        return {"__enum__": f"{type(v).__module__}:{type(v).__qualname__}", "name": v.name}
    if isinstance(v, (dt.date, dt.datetime)):
        return {"__date_ordinal__": v.toordinal()}
    if isinstance(v, dict):
        return {str(k): to_json(x) for k, x in v.items()}
    if isinstance(v, (list, tuple)):
        return [to_json(x) for x in v]
    if isinstance(v, (str, int, float, bool)) or v is None:
        return v
    return repr(v)


class _OldRewriter(ast.NodeTransformer):
    def __init__(self):
        self.olds: list[ast.AST] = []

    def visit_Call(self, node):
        if isinstance(node.func, ast.Name) and node.func.id == "old":
            self.olds.append(node.args[0])
            return ast.Name(id=f"__old{len(self.olds) - 1}", ctx=ast.Load())
        return self.generic_visit(node)


def eval_clause_native(clause: str, gl: dict, pre: dict, post: dict, result):
    tree = ast.parse(clause.strip(), mode="eval")
    rw = _OldRewriter()
    tree = ast.fix_missing_locations(rw.visit(tree))
    ns = dict(post)
    ns["result"] = result
    for i, o in enumerate(rw.olds):
        ns[f"__old{i}"] = eval(compile(ast.fix_missing_locations(ast.Expression(o)), "<old>", "eval"), gl, dict(pre))
    return bool(eval(compile(tree, "<clause>", "eval"), gl, ns))


def replay_contract(c: dict, inputs: dict, clause_name: Optional[str] = None) -> dict:
    """Runs the real function on `inputs`; evaluates the contract natively.

    Returns {reproduced: bool, observed: str, failed_clauses: [...]}; `reproduced` means that the
    contract is violated natively (some ensures false, or a raise outside the raises clause).
    """
    out = {"reproduced": False, "observed": "", "failed_clauses": [], "inputs": to_json(inputs)}
    try:
        inputs = _from_json(inputs)
        if c.get("replay"):
            return {**out, **c["replay"](inputs, clause_name)}
        fn = _resolve(c["target"])
        pre = copy.deepcopy(inputs)
        post = copy.deepcopy(inputs)
        gl = c["gl"]
        for name, clause in c["requires"].items():
            try:
                if not eval_clause_native(clause, gl, pre, pre, None):
                    out["observed"] = f"model does not satisfy requires/{name} natively (encoding gap)"
                    return out
            except Exception as e:
                out["observed"] = f"requires/{name} not evaluable natively: {e!r}"
                return out
        import inspect

        sig = inspect.signature(fn)
        args = {k: v for k, v in post.items() if k in sig.parameters}
        try:
            result = fn(**args)
        except Exception as e:
            et = type(e).__name__
            out["observed"] = f"raised {et}: {e}"
            allowed = False
            for etype, clause in c["raises"].items():
                if et == etype or any(k.__name__ == etype for k in type(e).__mro__):
                    allowed = eval_clause_native(clause, gl, pre, pre, None)
            if et in c.get("may_raise", ()):
                allowed = True
            if not allowed:
                out["reproduced"] = True
                out["failed_clauses"].append(f"no-raise/{et}")
            return out
        out["observed"] = f"returned {result!r}"[:500]
        for etype, clause in c["raises"].items():
            if eval_clause_native(clause, gl, pre, pre, None):
                out["reproduced"] = True
                out["failed_clauses"].append(f"raises-iff/{etype}")
        for name, clause in c["ensures"].items():
            try:
                ok = eval_clause_native(clause, gl, pre, post, result)
            except Exception as e:
                out["failed_clauses"].append(f"ensures/{name} (native evaluation raised {e!r})")
                continue
            if not ok:
                out["reproduced"] = True
                out["failed_clauses"].append(f"ensures/{name}")
        return out
    except Exception:
        out["observed"] = "replay harness error: " + traceback.format_exc()[-800:]
        return out
