"""Lexer-language lemmas (DESIGN.md section 4).

The lexer ATN is deserialised by the antlr4 runtime from the *generated lexer module under
/repo/src* on every run (the code that runs, not the .g4 text).  Each token rule becomes an
NFA (fragment rules are copied per call site - lexer rules are not recursive), determinised
over a partition of the code points; obligations are regular-language emptiness / inclusion
questions decided exactly by product construction (back end "automata").

Assumption A-ANTLR-LEX: the generated lexer implements maximal munch with ties resolved in
favour of the rule listed first, over this ATN.
"""
from __future__ import annotations

import importlib
import time
from typing import Iterable

MAXC = 0x10FFFF


class NFA:
    def __init__(self):
        self.n = 0
        self.eps: dict[int, list[int]] = {}
        self.tr: dict[int, list[tuple[int, int, int]]] = {}  # state -> [(lo, hi, target)]
        self.start = self.new()
        self.accept: set[int] = set()

    def new(self):
        self.n += 1
        return self.n - 1

    def add_eps(self, a, b):
        self.eps.setdefault(a, []).append(b)

    def add(self, a, lo, hi, b):
        self.tr.setdefault(a, []).append((lo, hi, b))

    def closure(self, states: Iterable[int]) -> frozenset:
        st = list(states)
        seen = set(st)
        while st:
            s = st.pop()
            for t in self.eps.get(s, ()):
                if t not in seen:
                    seen.add(t)
                    st.append(t)
        return frozenset(seen)

    def step(self, states: frozenset, c: int) -> frozenset:
        out = set()
        for s in states:
            for lo, hi, t in self.tr.get(s, ()):
                if lo <= c <= hi:
                    out.add(t)
        return self.closure(out)

    def breakpoints(self) -> set[int]:
        pts = set()
        for lst in self.tr.values():
            for lo, hi, _ in lst:
                pts.add(lo)
                pts.add(hi + 1)
        return pts


def intervals_of(label):
    return [(iv.start, iv.stop - 1) for iv in label.intervals]


class LexerATN:
    def __init__(self, module: str, cls: str):
        mod = importlib.import_module(module)
        self.lexer_cls = getattr(mod, cls)
        self.atn = self.lexer_cls.atn
        self.rule_names = list(self.lexer_cls.ruleNames)
        self.token_type = list(self.atn.ruleToTokenType)
        self.symbolic = list(self.lexer_cls.symbolicNames)
        self.literal = list(self.lexer_cls.literalNames)
        self.module = module

    def token_rules(self) -> list[int]:
        """Indices of non-fragment rules, in grammar order (= tie-break priority)."""
        return [i for i, t in enumerate(self.token_type) if t > 0]

    def rule_nfa(self, rule: int) -> NFA:
        nfa = NFA()
        acc = nfa.new()
        nfa.accept = {acc}
        self._copy(nfa, rule, nfa.start, acc, depth=0)
        return nfa

    def _copy(self, nfa: NFA, rule: int, entry: int, exit_: int, depth: int):
        if depth > 20:
            raise RuntimeError("recursive lexer rule")
        atn = self.atn
        start = atn.ruleToStartState[rule]
        stop = atn.ruleToStopState[rule]
        mapping = {start.stateNumber: entry, stop.stateNumber: exit_}
        todo = [start]
        seen = set()

        def m(st):
            if st.stateNumber not in mapping:
                mapping[st.stateNumber] = nfa.new()
            return mapping[st.stateNumber]

        while todo:
            st = todo.pop()
            if st.stateNumber in seen or st is stop:
                continue
            seen.add(st.stateNumber)
            for t in st.transitions:
                k = t.serializationType
                if k == 3:  # RULE
                    sub_exit = m(t.followState)
                    self._copy(nfa, t.ruleIndex, m(st), sub_exit, depth + 1)
                    todo.append(t.followState)
                    continue
                if k in (1, 6, 4, 10):  # EPSILON, ACTION, PREDICATE, PRECEDENCE
                    if k in (4, 10):
                        raise RuntimeError("semantic predicate in lexer rule: not modelled")
                    nfa.add_eps(m(st), m(t.target))
                elif k in (5, 2, 7):  # ATOM, RANGE, SET
                    for lo, hi in intervals_of(t.label):
                        nfa.add(m(st), lo, hi, m(t.target))
                elif k == 8:  # NOT_SET
                    cur = 0
                    for lo, hi in sorted(intervals_of(t.label)):
                        if cur <= lo - 1:
                            nfa.add(m(st), cur, lo - 1, m(t.target))
                        cur = hi + 1
                    if cur <= MAXC:
                        nfa.add(m(st), cur, MAXC, m(t.target))
                elif k == 9:  # WILDCARD
                    nfa.add(m(st), 0, MAXC, m(t.target))
                else:
                    raise RuntimeError(f"transition kind {k}")
                todo.append(t.target)


def seq_nfa(classes: list[tuple[str, bool]]) -> NFA:
    """NFA for a concatenation of character classes; (chars, optional)."""
    nfa = NFA()
    cur = nfa.start
    for chars, optional in classes:
        nxt = nfa.new()
        for c in chars:
            nfa.add(cur, ord(c), ord(c), nxt)
        if optional:
            nfa.add_eps(cur, nxt)
        cur = nxt
    nfa.accept = {cur}
    return nfa


def anything_after(nfa: NFA, follow_chars: str) -> NFA:
    """L(nfa) . follow . Sigma*"""
    import copy

    r = copy.deepcopy(nfa)
    f = r.new()
    for a in r.accept:
        for c in follow_chars:
            r.add(a, ord(c), ord(c), f)
    r.add(f, 0, MAXC, f)
    r.accept = {f}
    return r


def product_search(a: NFA, b: NFA, want=lambda ina, inb: ina and inb):
    """BFS over the product of the subset automata; returns a witness string for a reachable pair of
    state sets with want(accepting_a, accepting_b), else None.  Exact (both determinised on the fly)."""
    pts = sorted(a.breakpoints() | b.breakpoints() | {0})
    reps = [p for p in pts if p <= MAXC]
    s0 = (a.closure([a.start]), b.closure([b.start]))
    seen = {s0: ""}
    queue = [s0]
    explored = 0
    while queue:
        sa, sb = queue.pop(0)
        explored += 1
        if want(bool(sa & a.accept), bool(sb & b.accept)):
            return seen[(sa, sb)], explored
        if not sa and not sb:
            continue
        for c in reps:
            na, nb = a.step(sa, c), b.step(sb, c)
            if not na and not nb:
                continue
            if (na, nb) not in seen:
                seen[(na, nb)] = seen[(sa, sb)] + chr(c)
                queue.append((na, nb))
    return None, explored


def intersect_witness(a: NFA, b: NFA):
    return product_search(a, b, lambda x, y: x and y)


def not_subset_witness(a: NFA, b: NFA):
    """Witness in L(a) \\ L(b), or None when L(a) is a subset of L(b)."""
    return product_search(a, b, lambda x, y: x and not y)


def regex_nfa(pattern: str) -> NFA:
    """Thompson construction for the small regex dialect of the contract clauses (engine/regex.py syntax:
    literals, classes with ranges, groups, alternation, * + ? {m} {m,n}, escapes \\d)."""
    nfa = NFA()
    pos = [0]

    def peek():
        return pattern[pos[0]] if pos[0] < len(pattern) else None

    def eat():
        c = pattern[pos[0]]
        pos[0] += 1
        return c

    def frag_chars(ranges):
        a, b = nfa.new(), nfa.new()
        for lo, hi in ranges:
            nfa.add(a, lo, hi, b)
        return a, b

    def alt():
        frs = [seq()]
        while peek() == "|":
            eat()
            frs.append(seq())
        if len(frs) == 1:
            return frs[0]
        a, b = nfa.new(), nfa.new()
        for s, e in frs:
            nfa.add_eps(a, s)
            nfa.add_eps(e, b)
        return a, b

    def seq():
        a = nfa.new()
        cur = a
        while peek() is not None and peek() not in "|)":
            s, e = quant()
            nfa.add_eps(cur, s)
            cur = e
        return a, cur

    def copy_frag(build):
        return build()

    def quant():
        start = pos[0]
        s, e = atom()
        end = pos[0]
        while peek() is not None and peek() in "*+?{":
            c = eat()
            if c == "{":
                j = pattern.index("}", pos[0])
                body = pattern[pos[0]:j]
                pos[0] = j + 1
                lo, hi = (body.split(",") + [None])[:2] if "," in body else (body, body)
                lo = int(lo or 0)
                hi = None if hi == "" else int(hi)
                # rebuild the atom (lo..hi) times by re-parsing its source text
                src = pattern[start:end]

                def one():
                    save = pos[0]
                    pos[0] = start
                    r = atom()
                    pos[0] = save
                    return r

                a = nfa.new()
                cur = a
                for _ in range(lo):
                    s2, e2 = one()
                    nfa.add_eps(cur, s2)
                    cur = e2
                if hi is None:
                    s2, e2 = one()
                    nfa.add_eps(cur, s2)
                    nfa.add_eps(e2, cur)
                else:
                    endst = nfa.new()
                    nfa.add_eps(cur, endst)
                    for _ in range(hi - lo):
                        s2, e2 = one()
                        nfa.add_eps(cur, s2)
                        cur = e2
                        nfa.add_eps(cur, endst)
                    cur = endst
                s, e = a, cur
            elif c == "*":
                a, b = nfa.new(), nfa.new()
                nfa.add_eps(a, s); nfa.add_eps(e, s); nfa.add_eps(a, b); nfa.add_eps(e, b)
                s, e = a, b
            elif c == "+":
                b = nfa.new()
                nfa.add_eps(e, s); nfa.add_eps(e, b)
                e = b
            elif c == "?":
                nfa.add_eps(s, e)
        return s, e

    def atom():
        c = eat()
        if c == "(":
            if peek() == "?":
                eat(); eat()
            r = alt()
            eat()
            return r
        if c == "[":
            neg = False
            if peek() == "^":
                eat(); neg = True
            rs = []
            first = True
            while True:
                ch = eat()
                if ch == "]" and not first:
                    break
                first = False
                if ch == "\\":
                    ch = eat()
                    if ch == "d":
                        rs.append((48, 57)); continue
                if peek() == "-" and pattern[pos[0] + 1] != "]":
                    eat()
                    hi = eat()
                    rs.append((ord(ch), ord(hi)))
                else:
                    rs.append((ord(ch), ord(ch)))
            if neg:
                out, cur = [], 0
                for lo, hi in sorted(rs):
                    if cur <= lo - 1:
                        out.append((cur, lo - 1))
                    cur = max(cur, hi + 1)
                if cur <= 127:
                    out.append((cur, 127))
                rs = out
            return frag_chars(rs)
        if c == ".":
            return frag_chars([(0, 9), (11, 127)])
        if c == "\\":
            e = eat()
            if e == "d":
                return frag_chars([(48, 57)])
            return frag_chars([(ord(e), ord(e))])
        return frag_chars([(ord(c), ord(c))])

    s, e = alt()
    nfa.add_eps(nfa.start, s)
    nfa.accept = {e}
    return nfa
