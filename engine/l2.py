"""Level 2: the walk of the listener over EVERY parse tree that conforms to the parser's ATN (DESIGN.md section 3).

The ATN is read from the generated parser module under /repo/src (the code that runs).  The only knowledge about the
listener methods is their Level-1 *contracts* (call_by_contract: assume requires that are token-shape facts, check the
others, havoc `modifies`, assume `ensures`; unmodified state is framed).  The walk is verified over a finite predicate
abstraction of the compiler state:

  * for every listener method M and abstract pre-state a, the set post(M, a) of abstract post-states is computed from M's
    contract by exhaustive model enumeration (all-SAT over the predicate valuations) - an obligation of the form
    "contract(M) /\\ a  =>  post in post(M, a)", complete by construction;
  * the reachable triples (rule, abstract state, syntactic region) are the least fixpoint over the ATN graph with rule
    summaries (the grammar is not recursive); this fixpoint is the inductive invariant of the Floyd-style proof: every ATN
    edge maps invariant states into invariant states by construction of post;
  * the walk obligations (listener preconditions hold; flags encode the syntactic region; a section's stores are empty when
    it is entered; todo registers hold their defaults at every item; everything is closed at the end) are evaluated on the
    invariant.

Assumption A-ANTLR-TREE: for an input without syntax error the tree is a derivation in this ATN and ParseTreeWalker calls
enterR, the children left to right, exitR.
"""
from __future__ import annotations

import importlib
import os
import sys
import time
from typing import Optional

import z3

from . import spec as S
from . import sym
from .ctx import Abort, Ctx, SpecError, Unsupported
from .interp import Interp, _as_term
from .sym import PyRaise


def _has_quantifier(t) -> bool:
    seen, stack = set(), [t]
    while stack:
        x = stack.pop()
        i = x.get_id()
        if i in seen:
            continue
        seen.add(i)
        if z3.is_quantifier(x):
            return True
        stack.extend(x.children())
    return False


def _abstract_quantifiers(t):
    """replaces every quantified subformula (and lambda) by a fresh unconstrained constant: an over-approximation of the set
    of models of t restricted to the quantifier-free symbols (each replaced subformula may take either truth value)"""
    qs, seen, stack = [], set(), [t]
    while stack:
        x = stack.pop()
        i = x.get_id()
        if i in seen:
            continue
        seen.add(i)
        if z3.is_quantifier(x):
            qs.append(x)
            continue
        stack.extend(x.children())
    if not qs:
        return t
    return z3.substitute(t, *[(q, z3.FreshConst(q.sort(), "qabs")) for q in qs])


class Abstraction:
    """Abstract transformers of the listener methods, from their contracts.

    Each method's contract is executed symbolically ONCE over an unconstrained compiler state (call_by_contract: requires
    become deferred obligations, `modifies` is havocked, `ensures` assumed, the rest framed).  Every path yields a summary
    (path condition, predicate terms before and after, deferred precondition obligations).  post(M, a) is then an all-SAT
    enumeration over the predicates M can change, per path, under the literals of the abstract pre-state a."""

    def __init__(self, contracts: dict, gl: dict, self_ty, predicates: dict[str, str], data_names=(), assume_requires=("token-shape", "no-bullet-property-markers")):
        self.contracts = contracts
        self.gl = gl
        self.self_ty = self_ty
        self.names = list(predicates)
        self.preds = predicates
        self.assume_requires = assume_requires
        self.data_names = set(data_names)
        self.cache: dict = {}
        self._fp: dict = {}
        self._sum: dict = {}
        self.n_transformers = 0
        self.n_models = 0
        self.n_paths = 0
        self.failed_pre: list = []
        self.dead: list = []
        self.solver_time = 0.0
        self.used_models: set = set()

    def _explore(self, fn):
        """runs fn(ctx, interp) over every decision prefix; returns the list of results"""
        out = []
        work = [{}]
        n = 0
        while work:
            prefix = work.pop()
            n += 1
            if n > 600:
                raise Unsupported("L2 summary: path budget")
            ctx = Ctx(prefix, feas_timeout_ms=2000, oblig_timeout_ms=10000)
            ctx.defer_obligations = True
            it = Interp(ctx, self.contracts, target_key=None)
            it.current_contract = {"gl": self.gl, "module": "l2"}
            try:
                r = fn(ctx, it)
                if r is not None:
                    out.append(r)
            except Abort:
                pass
            self.solver_time += ctx.solver_time
            self.used_models |= it.used_models
            work.extend(ctx.alts)
        return out

    def _pred_terms(self, it, me):
        c = {"gl": self.gl, "module": "l2"}
        ts = []
        for n in self.names:
            t = S.eval_clause(it, c, self.preds[n], {"self": me}, None, None)
            t = sym.truth_term(it.ctx, t)
            ts.append(z3.BoolVal(t) if isinstance(t, bool) else t)
        return ts

    def summary(self, key: str):
        if key in self._sum:
            return self._sum[key]
        c = self.contracts[key]
        mod, qual = key.split(":")

        def run(ctx, it):
            me = self.self_ty().fresh(ctx, "self")
            pre = self._pred_terms(it, me)
            f = it.make_ifunc(mod, qual)
            args, loc = [me], {"self": me}
            if "ctx" in c["args"]:
                cx = c["args"]["ctx"].fresh(ctx, "ctx")
                args.append(cx)
                loc["ctx"] = cx
            # requires that are facts about the tokens of the rule (lexer lemmas) or stated restrictions are assumed
            c2 = dict(c)
            req = {}
            for name, clause in c["requires"].items():
                if name.startswith(self.assume_requires):
                    ctx.assume(_as_term(S.eval_clause(it, c, clause, loc, loc, None)))
                else:
                    req[name] = clause
            c2["requires"] = req
            n_pc = len(ctx.pc)
            raised = None
            try:
                it._call_by_contract(f, c2, args, {})
            except PyRaise as e:
                raised = e.etype
            post = self._pred_terms(it, me)
            obl = [(ob.name, ob.pc_len, ob.term) for ob in ctx.obligs if ob.status == "deferred"]
            bad = [ob.name + ": " + ob.status for ob in ctx.obligs if ob.status not in ("deferred", "proved")]
            if ctx.tainted:
                raise Unsupported(f"L2 summary of {key}: tainted path ({'; '.join(ctx.taint_reasons)[:200]})")
            return {"pc": [_abstract_quantifiers(p) for p in ctx.pc], "n_pc": n_pc, "pre": pre, "post": post, "obligs": obl, "bad": bad, "raised": raised,
                    "syms": set().union(*[ctx._syms(p) for p in ctx.pc[n_pc:]]) if len(ctx.pc) > n_pc else set(), "ctx": ctx}

        try:
            paths = self._explore(run)
        except (Unsupported, SpecError) as e:
            raise Unsupported(f"L2 summary of {key}: {e}")
        self.n_paths += len(paths)
        changed, symbols = set(), set()
        for pth in paths:
            symbols |= pth["syms"]
            for i, (x, y) in enumerate(zip(pth["pre"], pth["post"])):
                if not x.eq(y):
                    changed.add(i)
                    symbols |= pth["ctx"]._syms(y)
        relevant = set(changed)
        for pth in paths:
            for i, x in enumerate(pth["pre"]):
                if pth["ctx"]._syms(x) & symbols:
                    relevant.add(i)
        self._fp[key] = (tuple(sorted(relevant)), tuple(sorted(changed)))
        for pth in paths:
            s = z3.Solver()
            s.set("timeout", 10000)
            for p in pth["pc"]:
                s.add(p)
            pth["solver"] = s
        self._sum[key] = paths
        if os.environ.get("PYVC_DEBUG"):
            print(f"[l2] summary {key.split('.')[-1]} paths={len(paths)} rel={len(relevant)} chg={len(changed)} t={self.solver_time:.1f}", file=sys.stderr, flush=True)
        return paths

    def footprint(self, key: str):
        """(relevant predicate indices, changed predicate indices) of a method: a predicate is *changed* if its term after the
        call differs from its term before on some path; it is *relevant* if it shares an uninterpreted symbol with anything the
        call asserted, checked or changed (constraint independence: the other predicates can neither influence the call nor be
        influenced by it)."""
        self.summary(key)
        return self._fp[key]

    # An abstract state is a tuple over the predicates with values 0 (false), 1 (true), 2 (unknown).  *Control* predicates are
    # tracked relationally (sets of valuations, never 2); *data* predicates are tracked per control valuation as a Cartesian
    # three-valued vector (join = pointwise; 2 absorbs).  Unknown is an over-approximation: no literal is asserted for it.
    def is_data(self, i: int) -> bool:
        return self.names[i] in self.data_names

    def post(self, key: str, a: tuple) -> dict:
        """abstract post-states of the listener method `key` from abstract pre-state `a` (by its contract):
        {control valuation (full-length tuple with data positions = None) -> joined full state}"""
        rel, chg = self.footprint(key)
        sub = self._post_full(key, a, rel)
        out = {}
        for vals in sub:
            b = list(a)
            for i, v in zip(chg, vals):
                b[i] = v
            b = tuple(b)
            ck = tuple(None if self.is_data(i) else v for i, v in enumerate(b))
            out[ck] = join(out[ck], b) if ck in out else b
        return out

    def _post_full(self, key: str, a: tuple, rel: tuple) -> frozenset:
        rel_vals = tuple(a[i] for i in rel)
        ck = (key, rel_vals)
        if ck in self.cache:
            return self.cache[ck]
        _, chg = self._fp[key]
        chg_ctl = [i for i in chg if not self.is_data(i)]
        chg_dat = [i for i in chg if self.is_data(i)]
        results = set()
        t0 = time.time()

        def lits(pth):
            return [pth["pre"][i] if a[i] == 1 else z3.Not(pth["pre"][i]) for i in rel if a[i] != 2]

        def chk(s):
            r = s.check()
            if r == z3.unknown:
                raise Unsupported(f"L2 transformer {key}: solver gave unknown ({s.reason_unknown()})")
            return r == z3.sat

        for pth in self.summary(key):
            s = pth["solver"]
            s.push()
            try:
                for l in lits(pth):
                    s.add(l)
                if not chk(s):
                    continue
                if pth["raised"]:
                    self.failed_pre.append((key, a, f"contract allows raising {pth['raised']}"))
                    continue
                for b in pth["bad"]:
                    self.failed_pre.append((key, a, b))
                # deferred preconditions: pc[:pc_len] /\ state literals /\ not goal must be unsatisfiable
                for name, pc_len, goal in pth["obligs"]:
                    s2 = z3.Solver()
                    s2.set("timeout", 10000)
                    for p in pth["pc"][:pc_len]:
                        s2.add(p)
                    for l in lits(pth):
                        s2.add(l)
                    s2.add(z3.Not(goal))
                    r2 = s2.check()
                    if r2 != z3.unsat:
                        self.failed_pre.append((key, a, f"{name}: {'refuted' if r2 == z3.sat else 'undecided'}"))
                n = 0
                while chk(s):
                    m = s.model()
                    cval = tuple(1 if z3.is_true(m.eval(pth["post"][i], model_completion=True)) else 0 for i in chg_ctl)
                    self.n_models += 1
                    n += 1
                    if n > 256:
                        raise Unsupported("L2 transformer: too many abstract successors")
                    fix = [pth["post"][i] == z3.BoolVal(bool(v)) for i, v in zip(chg_ctl, cval)]
                    # data predicates: which truth values are possible together with this control valuation
                    dval = []
                    s.push()
                    for f in fix:
                        s.add(f)
                    for i in chg_dat:
                        t = pth["post"][i]
                        mt = z3.is_true(m.eval(t, model_completion=True))
                        s.push()
                        s.add(z3.Not(t) if mt else t)
                        other = chk(s)
                        s.pop()
                        dval.append(2 if other else (1 if mt else 0))
                    s.pop()
                    vals = dict(zip(chg_ctl, cval))
                    vals.update(zip(chg_dat, dval))
                    results.add(tuple(vals[i] for i in chg))
                    if not chg_ctl:
                        break
                    s.add(z3.Not(z3.And(*fix)))
            finally:
                s.pop()
        self.solver_time += time.time() - t0
        self.n_transformers += 1
        if not results and not any(f[0] == key and f[1] == a for f in self.failed_pre):
            # vacuity guard: a reachable abstract state from which the contract admits no post-state would silently end the walk
            self.dead.append((key, a))
        r = frozenset(results)
        self.cache[ck] = r
        return r


def join(a: tuple, b: tuple) -> tuple:
    return tuple(x if x == y else 2 for x, y in zip(a, b))


class Walk:
    """Reachability of (rule, abstract state, region) over the parser ATN with rule summaries; data predicates are joined at
    ATN states (Cartesian), control predicates are explored relationally."""

    def __init__(self, parser_module: str, parser_cls: str, compiler_cls, method_key_prefix: str, abstraction: Abstraction, region_fn, checks, dead_alternatives=()):
        P = getattr(importlib.import_module(parser_module), parser_cls)
        self.P = P
        self.dead_alts = {(d["rule"], d["callee"]) for d in dead_alternatives}
        self.dead_alt_specs = list(dead_alternatives)
        self.atn = P.atn
        self.rules = list(P.ruleNames)
        self.abs = abstraction
        self.prefix = method_key_prefix
        self.compiler_cls = compiler_cls
        base = compiler_cls.__mro__[1]
        self.overridden = {n for n in dir(compiler_cls) if (n.startswith("enter") or n.startswith("exit")) and n not in ("enterEveryRule", "exitEveryRule")
                           and getattr(compiler_cls, n) is not getattr(base, n, None)}
        self.region_fn = region_fn
        self.checks = checks  # list of (name, fn(point, rule, a_dict, region) -> Optional[bool])
        self.summary: dict = {}
        self.visits: set = set()
        self.violations: list = []
        self._viol_seen: set = set()
        self.check_counts: dict = {}
        self.missing_contracts: set = set()
        self.in_progress: set = set()
        self.n_nodes = 0
        self.t0 = time.time()

    def _meth(self, kind, rule):
        n = kind + rule[0].upper() + rule[1:]
        return n if n in self.overridden else None

    def _ck(self, a):
        return tuple(None if self.abs.is_data(i) else v for i, v in enumerate(a))

    def _apply(self, name, states: dict) -> dict:
        """states: {control key -> full state}"""
        key = self.prefix + name
        if key not in self.abs.contracts:
            self.missing_contracts.add(name)
            return dict(states)
        out = {}
        for a in states.values():
            for ck, b in self.abs.post(key, a).items():
                out[ck] = join(out[ck], b) if ck in out else b
        return out

    def _check(self, point, rule, a, region, trail):
        ad = {n: (v == 1) for n, v in zip(self.abs.names, a)}
        for name, fn in self.checks:
            r = fn(point, rule, ad, region)
            if r is None:
                continue
            self.check_counts[name] = self.check_counts.get(name, 0) + 1
            if not r:
                k = (name, point, rule, region, a)
                if k in self._viol_seen:
                    continue
                self._viol_seen.add(k)
                self.violations.append({"obligation": name, "point": point, "rule": rule, "region": region,
                                        "state": {n: ("unknown" if v == 2 else bool(v)) for n, v in zip(self.abs.names, a)}, "trail": list(trail[-12:])})

    def walk_rule(self, r: int, a: tuple, region: str, trail: tuple) -> dict:
        rule = self.rules[r]
        key = (r, a, region)
        if key in self.summary:
            return self.summary[key]
        if key in self.in_progress:
            raise Unsupported(f"recursive grammar rule {rule}")
        self.in_progress.add(key)
        self.visits.add(key)
        if os.environ.get("PYVC_DEBUG") and len(self.visits) % 200 == 0:
            print(f"[l2] walk visits={len(self.visits)} nodes={self.n_nodes} transformers={self.abs.n_transformers} t={time.time() - self.t0:.0f}s", file=sys.stderr, flush=True)
        if len(self.visits) > 200000:
            raise Unsupported("L2 walk: visit budget")
        trail = trail + (rule,)
        self._check("enter", rule, a, region, trail)
        m = self._meth("enter", rule)
        cur = self._apply(m, {self._ck(a): a}) if m else {self._ck(a): a}
        start = self.atn.ruleToStartState[r]
        stop = self.atn.ruleToStopState[r]
        # exploration nodes: (atn state number, control valuation, ghost = `comment` children seen in `head`, capped at 1) -> joined state
        val: dict = {}
        work = []

        def push(st, s, g):
            node = (st.stateNumber, self._ck(s), g)
            old = val.get(node)
            new = s if old is None else join(old, s)
            if new != old:
                val[node] = new
                work.append((st, node))

        for s in cur.values():
            push(start, s, 0)
        outs: dict = {}
        while work:
            st, node = work.pop()
            s, g = val[node], node[2]
            self.n_nodes += 1
            if st is stop:
                ck = node[1]
                outs[ck] = join(outs[ck], s) if ck in outs else s
                continue
            for t in st.transitions:
                if t.serializationType == 3:  # rule transition
                    callee = self.rules[t.ruleIndex]
                    if (rule, callee) in self.dead_alts:
                        continue  # shadowed alternative (side condition: check_dead_alternatives)
                    reg2 = self.region_fn(rule, callee, region, g)
                    g2 = 1 if (rule == "head" and callee == "comment") else g
                    for s2 in self.walk_rule(t.ruleIndex, s, reg2, trail).values():
                        push(t.followState, s2, g2)
                else:
                    push(t.target, s, g)
        m = self._meth("exit", rule)
        res = self._apply(m, outs) if m else outs
        for s in res.values():
            self._check("exit", rule, s, region, trail)
        self.in_progress.discard(key)
        self.summary[key] = res
        return res

    # ---- side conditions of the excluded (shadowed) alternatives ------------------------------------------------------
    def _ends(self, r: int, toks: tuple, i: int, memo: dict) -> frozenset:
        """positions j such that rule r derives toks[i:j] (token types), by search over the ATN"""
        k = (r, i)
        if k in memo:
            return memo[k]
        memo[k] = frozenset()  # the grammar is not left-recursive
        start, stop = self.atn.ruleToStartState[r], self.atn.ruleToStopState[r]
        seen, work, out = set(), [(start, i)], set()
        while work:
            st, j = work.pop()
            if (st.stateNumber, j) in seen:
                continue
            seen.add((st.stateNumber, j))
            if st is stop:
                out.add(j)
                continue
            for t in st.transitions:
                if t.serializationType == 3:
                    for j2 in self._ends(t.ruleIndex, toks, j, memo):
                        work.append((t.followState, j2))
                elif t.isEpsilon:
                    work.append((t.target, j))
                elif j < len(toks) and t.matches(toks[j], 0, self.atn.maxTokenType):
                    work.append((t.target, j + 1))
        memo[k] = frozenset(out)
        return memo[k]

    def derives(self, rule: str, toks: tuple) -> bool:
        return len(toks) in self._ends(self.rules.index(rule), toks, 0, {})

    def check_dead_alternatives(self) -> list:
        """For every excluded alternative `rule -> callee`: (1) the shadowing callee is an earlier alternative of the same
        decision, (2) the excluded callee derives exactly the listed token strings (its rule is a chain of single-token
        transitions), (3) the shadowing callee derives each of them.  Returns a list of (name, ok, detail)."""
        res = []
        sym_names = list(self.P.symbolicNames)
        for d in self.dead_alt_specs:
            r = self.rules.index(d["rule"])
            order = []
            for st in self.atn.states:
                if st is not None and st.ruleIndex == r:
                    for t in st.transitions:
                        if t.serializationType == 3:
                            order.append((st.stateNumber, self.rules[t.ruleIndex]))
            # alternatives of the decision appear as epsilon branches of one decision state, in order
            dec = None
            for st in self.atn.states:
                if st is not None and st.ruleIndex == r and len(st.transitions) > 1:
                    firsts = []
                    for t in st.transitions:
                        x = t.target
                        while len(x.transitions) == 1 and x.transitions[0].isEpsilon and x.transitions[0].serializationType != 3:
                            x = x.transitions[0].target
                        firsts.append(self.rules[x.transitions[0].ruleIndex] if x.transitions and x.transitions[0].serializationType == 3 else None)
                    if d["callee"] in firsts and d["shadowed_by"] in firsts:
                        dec = firsts
            ok1 = dec is not None and dec.index(d["shadowed_by"]) < dec.index(d["callee"])
            toks = [tuple(sym_names.index(n) for n in ts) for ts in d["tokens"]]
            # (2) language of the excluded callee: all token strings up to length 3 over its FIRST alphabet that it derives
            alphabet = sorted({x for ts in toks for x in ts})
            import itertools

            lang = set()
            for n in range(0, 4):
                for ts in itertools.product(range(1, self.atn.maxTokenType + 1), repeat=n) if n <= 1 else itertools.product(alphabet, repeat=n):
                    if self.derives(d["callee"], tuple(ts)):
                        lang.add(tuple(ts))
            ok2 = lang == set(toks)
            ok3 = all(self.derives(d["shadowed_by"], ts) for ts in toks)
            res.append((f"L2/shadowed-alternative-{d['rule']}->{d['callee']}", ok1 and ok2 and ok3,
                        f"earlier alternative {d['shadowed_by']} in decision {dec}: {ok1}; language of {d['callee']} (strings up to length 3) = {sorted(lang)} == {sorted(toks)}: {ok2}; {d['shadowed_by']} derives them: {ok3}"))
        return res
