"""Level 2: the walk of the listener over EVERY parse tree that conforms to the parser's ATN (DESIGN.md section 3).

The ATN is read from the generated parser module under /repo/src (the code that runs).  The only knowledge about the
listener methods is their Level-1 *contracts* (call_by_contract: assume requires that are token-shape facts, check the
others, havoc `modifies`, assume `ensures`; unmodified state is framed).  The walk is verified over a finite predicate
abstraction of the compiler state:

  * for every listener method M and abstract pre-state a, the set post(M, a) of abstract post-states is computed from M's
    contract by exhaustive model enumeration (all-SAT over the predicate valuations) - an obligation of the form
    "contract(M) /\\ a  =>  post in post(M, a)", complete by construction;
  * the reachable triples (rule, abstract state, syntactic region) are the least fixpoint over the ATN graph with rule
    summaries (the grammar is not recursive); this fixpoint is the inductive invariant of the Floyd-style proof: every ATN
    edge maps invariant states into invariant states by construction of post;
  * the walk obligations (listener preconditions hold; flags encode the syntactic region; a section's stores are empty when
    it is entered; todo registers hold their defaults at every item; everything is closed at the end) are evaluated on the
    invariant.

Assumption A-ANTLR-TREE: for an input without syntax error the tree is a derivation in this ATN and ParseTreeWalker calls
enterR, the children left to right, exitR.
"""
from __future__ import annotations

import importlib
import time
from typing import Optional

import z3

from . import spec as S
from . import sym
from .ctx import Abort, Ctx, SpecError, Unsupported
from .interp import Interp, _as_term
from .sym import PyRaise


def _has_quantifier(t) -> bool:
    seen, stack = set(), [t]
    while stack:
        x = stack.pop()
        i = x.get_id()
        if i in seen:
            continue
        seen.add(i)
        if z3.is_quantifier(x):
            return True
        stack.extend(x.children())
    return False


class Abstraction:
    def __init__(self, contracts: dict, gl: dict, self_ty, predicates: dict[str, str], assume_requires=("token-shape", "no-bullet-property-markers")):
        self.contracts = contracts
        self.gl = gl
        self.self_ty = self_ty
        self.names = list(predicates)
        self.preds = predicates
        self.assume_requires = assume_requires
        self.cache: dict = {}
        self._fp: dict = {}
        self.n_transformers = 0
        self.n_models = 0
        self.failed_pre: list = []
        self.solver_time = 0.0
        self.used_models: set = set()

    def _explore(self, fn):
        """runs fn(ctx, interp) over every decision prefix; returns the list of results"""
        out = []
        work = [{}]
        n = 0
        while work:
            prefix = work.pop()
            n += 1
            if n > 400:
                raise Unsupported("L2 transformer: path budget")
            ctx = Ctx(prefix, feas_timeout_ms=2000, oblig_timeout_ms=10000)
            it = Interp(ctx, self.contracts, target_key=None)
            it.current_contract = {"gl": self.gl, "module": "l2"}
            try:
                r = fn(ctx, it)
                if r is not None:
                    out.append(r)
            except Abort:
                pass
            self.solver_time += ctx.solver_time
            self.used_models |= it.used_models
            work.extend(ctx.alts)
        return out

    def _pred_terms(self, it, me):
        c = {"gl": self.gl, "module": "l2"}
        ts = []
        for n in self.names:
            t = S.eval_clause(it, c, self.preds[n], {"self": me}, None, None)
            t = sym.truth_term(it.ctx, t)
            ts.append(z3.BoolVal(t) if isinstance(t, bool) else t)
        return ts

    def footprint(self, key: str):
        """(relevant predicate indices, changed predicate indices) of a method, from one fully symbolic evaluation of its
        contract: a predicate is *changed* if its term after the call differs from its term before on some path; it is
        *relevant* if it shares an uninterpreted symbol with anything the call asserted, checked or changed (constraint
        independence: the other predicates can neither influence the call nor be influenced by it)."""
        if key in self._fp:
            return self._fp[key]
        c = self.contracts[key]
        mod, qual = key.split(":")
        changed, symbols, pre_syms = set(), set(), {}

        def run(ctx, it):
            me = self.self_ty().fresh(ctx, "self")
            pre = self._pred_terms(it, me)
            for i, t in enumerate(pre):
                pre_syms[i] = ctx._syms(t)
            f = it.make_ifunc(mod, qual)
            args, loc = [me], {"self": me}
            if "ctx" in c["args"]:
                cx = c["args"]["ctx"].fresh(ctx, "ctx")
                args.append(cx)
                loc["ctx"] = cx
            n_pc, n_ob = len(ctx.pc), len(ctx.obligs)
            try:
                it._call_by_contract(f, c, args, {})
            except PyRaise:
                pass
            for p in ctx.pc[n_pc:]:
                symbols.update(ctx._syms(p))
            post = self._pred_terms(it, me)
            for i, (x, y) in enumerate(zip(pre, post)):
                if not x.eq(y):
                    changed.add(i)
                    symbols.update(ctx._syms(y))
            return True

        # obligations are checked against the path condition: their symbols are part of pc after obligate()
        self._explore(run)
        relevant = {i for i, sy in pre_syms.items() if sy & symbols} | changed
        self._fp[key] = (tuple(sorted(relevant)), tuple(sorted(changed)))
        return self._fp[key]

    def post(self, key: str, a: tuple) -> frozenset:
        """abstract post-states of the listener method `key` from abstract pre-state `a` (by its contract)"""
        rel, chg = self.footprint(key)
        sub = self._post_full(key, a, rel)
        out = set()
        for vals in sub:
            b = list(a)
            for i, v in zip(chg, vals):
                b[i] = v
            out.add(tuple(b))
        return frozenset(out)

    def _post_full(self, key: str, a: tuple, rel: tuple) -> frozenset:
        rel_vals = tuple(a[i] for i in rel)
        ck = (key, rel_vals)
        if ck in self.cache:
            return self.cache[ck]
        _, chg = self.footprint(key)
        c = self.contracts[key]
        mod, qual = key.split(":")
        results = set()

        def run(ctx, it):
            me = self.self_ty().fresh(ctx, "self")
            pre = self._pred_terms(it, me)
            for i in rel:
                ctx.assume(pre[i] if a[i] else z3.Not(pre[i]))
            if not ctx.feasible():
                raise Abort("abstract state not concretisable")
            f = it.make_ifunc(mod, qual)
            args = [me]
            loc = {"self": me}
            if "ctx" in c["args"]:
                cx = c["args"]["ctx"].fresh(ctx, "ctx")
                args.append(cx)
                loc["ctx"] = cx
            # requires that are facts about the tokens of the rule (lexer lemmas) or stated restrictions are assumed
            c2 = dict(c)
            req = {}
            for name, clause in c["requires"].items():
                if name.startswith(self.assume_requires):
                    ctx.assume(_as_term(S.eval_clause(it, c, clause, loc, loc, None)))
                else:
                    req[name] = clause
            c2["requires"] = req
            n0 = len(ctx.obligs)
            try:
                it._call_by_contract(f, c2, args, {})
            except PyRaise as e:
                self.failed_pre.append((key, a, f"contract allows raising {e.etype}"))
                return None
            for ob in ctx.obligs[n0:]:
                if ob.status != "proved":
                    self.failed_pre.append((key, a, f"{ob.name}: {ob.status}"))
            post_all = self._pred_terms(it, me)
            post = [post_all[i] for i in chg]
            # all-SAT over the valuations of the predicates the call can change
            s = z3.Solver()
            s.set("timeout", 10000)
            # quantified facts (list / map extensionality from frame clauses) are irrelevant for the predicates and only make the
            # enumeration incomplete: dropping them over-approximates the successor set (sound for the walk obligations)
            for p in ctx.pc:
                if not _has_quantifier(p):
                    s.add(p)
            found = []
            while True:
                r = s.check()
                if r != z3.sat:
                    if r == z3.unknown:
                        raise Unsupported(f"L2 transformer {key}: solver gave unknown during model enumeration ({s.reason_unknown()}); "
                                          + "; ".join(str(x)[:120] for x in s.assertions() if "Lambda" in str(x) or "lambda" in str(x))[:600])
                    break
                m = s.model()
                val = tuple(z3.is_true(m.eval(t, model_completion=True)) for t in post)
                found.append(val)
                self.n_models += 1
                s.add(z3.Or(*[t != z3.BoolVal(v) for t, v in zip(post, val)]))
                if len(found) > 64:
                    raise Unsupported("L2 transformer: too many abstract successors")
            return found

        for lst in self._explore(run):
            results.update(lst)
        self.n_transformers += 1
        r = frozenset(results)
        self.cache[ck] = r
        return r


class Walk:
    """Reachability of (rule, abstract state, region) over the parser ATN with rule summaries."""

    def __init__(self, parser_module: str, parser_cls: str, compiler_cls, method_key_prefix: str, abstraction: Abstraction, region_fn, checks):
        P = getattr(importlib.import_module(parser_module), parser_cls)
        self.P = P
        self.atn = P.atn
        self.rules = list(P.ruleNames)
        self.abs = abstraction
        self.prefix = method_key_prefix
        self.compiler_cls = compiler_cls
        base = compiler_cls.__mro__[1]
        self.overridden = {n for n in dir(compiler_cls) if (n.startswith("enter") or n.startswith("exit")) and n not in ("enterEveryRule", "exitEveryRule")
                           and getattr(compiler_cls, n) is not getattr(base, n, None)}
        self.region_fn = region_fn
        self.checks = checks  # list of (name, fn(point, rule, a_dict, region) -> Optional[bool])
        self.summary: dict = {}
        self.visits: set = set()
        self.violations: list = []
        self.check_counts: dict = {}
        self.missing_contracts: set = set()
        self.in_progress: set = set()

    def _meth(self, kind, rule):
        n = kind + rule[0].upper() + rule[1:]
        return n if n in self.overridden else None

    def _apply(self, name, states):
        key = self.prefix + name
        if key not in self.abs.contracts:
            self.missing_contracts.add(name)
            return set(states)
        out = set()
        for a in states:
            out |= self.abs.post(key, a)
        return out

    def _check(self, point, rule, a, region, trail):
        ad = dict(zip(self.abs.names, a))
        for name, fn in self.checks:
            r = fn(point, rule, ad, region)
            if r is None:
                continue
            self.check_counts[name] = self.check_counts.get(name, 0) + 1
            if not r:
                self.violations.append({"obligation": name, "point": point, "rule": rule, "region": region, "state": {k: v for k, v in ad.items()}, "trail": trail[-12:]})

    def walk_rule(self, r: int, a: tuple, region: str, trail: tuple) -> frozenset:
        rule = self.rules[r]
        key = (r, a, region)
        if key in self.summary:
            return self.summary[key]
        if key in self.in_progress:
            raise Unsupported(f"recursive grammar rule {rule}")
        self.in_progress.add(key)
        self.visits.add(key)
        trail = trail + (rule,)
        self._check("enter", rule, a, region, trail)
        m = self._meth("enter", rule)
        cur = self._apply(m, {a}) if m else {a}
        start = self.atn.ruleToStartState[r]
        stop = self.atn.ruleToStopState[r]
        # exploration nodes: (atn state number, abstract state, ghost = number of `comment` children seen in `head` capped at 1)
        seen = set()
        work = [(start, s, 0) for s in cur]
        outs = set()
        while work:
            st, s, g = work.pop()
            node = (st.stateNumber, s, g)
            if node in seen:
                continue
            seen.add(node)
            if st is stop:
                outs.add(s)
                continue
            for t in st.transitions:
                if t.serializationType == 3:  # rule transition
                    callee = self.rules[t.ruleIndex]
                    reg2 = self.region_fn(rule, callee, region, g)
                    g2 = 1 if (rule == "head" and callee == "comment") else g
                    for s2 in self.walk_rule(t.ruleIndex, s, reg2, trail):
                        work.append((t.followState, s2, g2))
                else:
                    work.append((t.target, s, g))
        m = self._meth("exit", rule)
        res = self._apply(m, outs) if m else outs
        for s in res:
            self._check("exit", rule, s, region, trail)
        self.in_progress.discard(key)
        fr = frozenset(res)
        self.summary[key] = fr
        return fr
