import sys, json
sys.path.insert(0, "/verif")
from engine import verify
mods = sys.argv[1].split(",")
key = sys.argv[2]
cs = verify.load_contracts(mods)
if key.startswith("lemma:"):
    r = verify.verify_lemma(key[6:])
else:
    r = verify.verify_function(key, cs)
j = r.to_json()
for o in j["obligations"]:
    print(o["status"], o["name"], o["vcs"], o["time_s"], o.get("why","")[:200])
j2 = dict(j); j2.pop("obligations")
print(json.dumps(j2, indent=1, default=str)[:3000])
