"""Contract API (sidecar files under /verif/contracts use this) and clause evaluation.

A contract file is plain Python that is *both* executed natively (spec functions double as
the replay / bounded-tier oracle) and parsed (spec functions and clause strings are
interpreted symbolically by the same front end as the code under verification).

    contract("zorg.mod:func", props=["C07"],
             args={"x": T.int()}, returns=T.int(),
             requires={"pos": "x > 0"}, ensures={"inc": "result == x + 1"},
             raises={"ValueError": "x > 10"},          # raised IFF the condition (pre-state)
             modifies={"self._s.flag": T.bool()},
             loops={0: dict(invariant={"i": "..."}, modifies={"n": T.int()})})
"""
from __future__ import annotations

import ast
import sys
from typing import Any, Callable, Optional

import z3

from . import sym
from .ctx import Abort, SpecError, Unsupported
from .sym import (
    Rec,
    SList,
    SMap,
    SOpt,
    SV,
    TBool,
    TBStr,
    TCList,
    TConst,
    TDate,
    TDictOf,
    TPList,
    TEnum,
    TInt,
    TList,
    TListVal,
    TMap,
    TPath,
    TOpaque,
    TOpt,
    TRec,
    TStr,
)

REGISTRY: dict[str, dict] = {}
LEMMAS: dict[str, dict] = {}


class T:
    int = TInt
    bool = TBool
    str = TStr
    bstr = TBStr
    enum = TEnum
    date = TDate
    opt = TOpt
    list = TList
    clist = TCList
    map = TMap
    const = TConst
    rec = TRec
    opaque = TOpaque
    listval = TListVal
    plist = TPList
    dictof = TDictOf
    path = TPath


def _named(cl) -> dict:
    if cl is None:
        return {}
    if isinstance(cl, dict):
        return dict(cl)
    if isinstance(cl, str):
        return {"c0": cl}
    return {f"c{i}": c for i, c in enumerate(cl)}


def contract(target: str, *, props, args=None, returns=None, requires=None, ensures=None,
             raises=None, modifies=None, loops=None, assumed=False, frame=None, may_raise=(),
             kwargs=None, note="", replay=None, bounded=None, prelude=None, **extra) -> dict:
    caller = sys._getframe(1).f_globals
    c = dict(
        target=target,
        props=list(props),
        args=dict(args or {}),
        kwargs=dict(kwargs or {}),
        returns=returns,
        requires=_named(requires),
        ensures=_named(ensures),
        raises=dict(raises or {}),
        modifies=dict(modifies or {}),
        loops={k: dict(v, invariant=_named(v.get("invariant"))) for k, v in (loops or {}).items()},
        assumed=assumed,
        frame=frame,
        may_raise=tuple(may_raise),
        note=note,
        replay=replay,
        bounded=bounded,
        prelude=prelude,
        module=caller.get("__name__"),
        gl=caller,
    )
    c.update(extra)
    REGISTRY[target] = c
    return c


def lemma(name: str, *, props, vars: dict, assumes=None, shows=None, note="", uses=(), timeout_ms=None, bounded=None, list_bound=None) -> dict:
    """A property-level lemma over contracts: forall vars. /\\assumes => /\\shows."""
    caller = sys._getframe(1).f_globals
    l = dict(name=name, props=list(props), vars=dict(vars), assumes=_named(assumes), shows=_named(shows),
             note=note, uses=tuple(uses), module=caller.get("__name__"), gl=caller, timeout_ms=timeout_ms, bounded=bounded, list_bound=list_bound)
    LEMMAS[name] = l
    return l


# ---------------------------------------------------------------------------------------
# native versions of the spec primitives (contract files import these)
# ---------------------------------------------------------------------------------------
def implies(a, b):
    return (not a) or b


def forall(lo, hi, f):
    return all(f(i) for i in range(lo, hi))


def exists(lo, hi, f):
    return any(f(i) for i in range(lo, hi))


def opaque(ret, always=False):
    """Spec function whose definition is hidden on unbounded symbolic strings (uninterpreted there),
    evaluated on bounded/concrete ones; `ret` is "int" | "bool" | "str" | "path" | "map" | "list:<elem>".
    always=True: uninterpreted on every symbolic call (the native body only serves the replay / bounded tier)."""

    def deco(fn):
        fn.__pyvc_opaque__ = ret
        fn.__pyvc_opaque_always__ = always
        return fn

    return deco


# ---------------------------------------------------------------------------------------
# symbolic versions
# ---------------------------------------------------------------------------------------
class Prim:
    def __init__(self, name, fn):
        self.name, self.fn = name, fn


def _p_implies(interp, args, kwargs, env):
    a, b = args
    ta, tb = sym.truth_term(interp.ctx, a), sym.truth_term(interp.ctx, b)
    if isinstance(ta, bool):
        return tb if ta else True
    if isinstance(tb, bool):
        return True if tb else sym.sbool(z3.Not(ta))
    return sym.sbool(z3.Implies(ta, tb))


def _quant(q):
    def run(interp, args, kwargs, env):
        lo, hi, f = args
        lo, hi = sym.mk(lo), sym.mk(hi)
        if isinstance(lo, int) and isinstance(hi, int) and hi - lo <= 64:
            terms = []
            for i in range(lo, hi):
                terms.append(sym.truth_term(interp.ctx, interp.call(f, [i], {})))
            terms = [z3.BoolVal(t) if isinstance(t, bool) else t for t in terms]
            if not terms:
                return q == "forall"
            return sym.sbool(z3.And(*terms) if q == "forall" else z3.Or(*terms))
        v = z3.Int(interp.ctx.fresh_name("q"))
        ctx = interp.ctx
        saved = getattr(ctx, "quant_vars", None)
        ctx.quant_vars = set(saved or ()) | ctx._syms(v)
        try:
            body = sym.truth_term(ctx, interp.call(f, [SV(v, "int")], {}))
        finally:
            ctx.quant_vars = saved
        body = z3.BoolVal(body) if isinstance(body, bool) else body
        rng = z3.And(*([v >= sym.zint(lo)] if lo is not None else []), *([v < sym.zint(hi)] if hi is not None else []), z3.BoolVal(True))
        if q == "forall":
            return sym.sbool(z3.ForAll([v], z3.Implies(rng, body)))
        return sym.sbool(z3.Exists([v], z3.And(rng, body)))

    return run


def _path_term(interp, p):
    if isinstance(p, Rec) and p.cls_name == "Path":
        p = p.fields["s"]
    return sym.zstr(p)


def _p_fs_exists(interp, args, kwargs, env):
    from . import models

    g = models.fs_state(interp)
    return sym.sbool(z3.Select(g["fs_exists"], _path_term(interp, args[0])))


def _p_fs_read(interp, args, kwargs, env):
    from . import models

    g = models.fs_state(interp)
    return sym.sstr(z3.Select(g["fs_content"], _path_term(interp, args[0])))


def _p_fs_unchanged(interp, args, kwargs, env):
    """no file was created, changed or removed since the pre-state"""
    from . import models

    g = models.fs_state(interp)
    o = getattr(interp, "old_ghost", None) or {}
    if "fs_exists" not in o:
        raise SpecError("fs_unchanged() outside a postcondition")
    if g["fs_exists"].eq(o["fs_exists"]) and g["fs_content"].eq(o["fs_content"]):
        return True
    return sym.sbool(z3.And(g["fs_exists"] == o["fs_exists"], g["fs_content"] == o["fs_content"]))


def _p_fs_only_changed(interp, args, kwargs, env):
    """every path other than the given one has the same existence and content as in the pre-state"""
    from . import models

    g = models.fs_state(interp)
    o = getattr(interp, "old_ghost", None) or {}
    ex, co = o["fs_exists"], o["fs_content"]
    for a in args:  # every path other than the given ones
        p = _path_term(interp, a)
        ex = z3.Store(ex, p, z3.Select(g["fs_exists"], p))
        co = z3.Store(co, p, z3.Select(g["fs_content"], p))
    return sym.sbool(z3.And(g["fs_exists"] == ex, g["fs_content"] == co))


def _p_json_map(interp, args, kwargs, env):
    from . import models

    return models.json_decode(interp, args[0])


def _p_ymd(interp, args, kwargs, env):
    from . import models

    return models.ymd_of(interp, args[0])


def _p_fullmatch(interp, args, kwargs, env):
    from .regex import to_z3

    pat, s = args
    s = sym.mk(s)
    if isinstance(s, str):
        import re

        return re.fullmatch(pat, s) is not None
    return sym.sbool(z3.InRe(sym.zstr(s), to_z3(pat)))


def _p_map_set(interp, args, kwargs, env):
    m, k, v = args
    if isinstance(m, dict):
        m = sym.dict_to_smap(interp.ctx, m, TStr(), TStr())
    kt = m.kty.unwrap(interp.ctx, k)
    return SMap(z3.Store(m.has, kt, True), z3.Store(m.val, kt, m.vty.unwrap(interp.ctx, v)), m.kty, m.vty)


def _p_map_get(interp, args, kwargs, env):
    m, k, d = args
    if isinstance(m, dict):
        m = sym.dict_to_smap(interp.ctx, m, TStr(), TStr())
    kt = m.kty.unwrap(interp.ctx, k)
    # fork (not ite): the default is usually a literal on which spec functions evaluate concretely
    if interp.ctx.branch(z3.Select(m.has, kt), "map_get: present"):
        return sym.mk_elem(m.vty, z3.Select(m.val, kt))
    return d


def _p_today(interp, args, kwargs, env):
    from . import models

    return models.today(interp)


def _p_forall_str(interp, args, kwargs, env):
    (f,) = args
    v = z3.String(interp.ctx.fresh_name("qs"))
    ctx = interp.ctx
    saved = getattr(ctx, "quant_vars", None)
    ctx.quant_vars = set(saved or ()) | ctx._syms(v)
    try:
        body = sym.truth_term(ctx, interp.call(f, [SV(v, "str")], {}))
    finally:
        ctx.quant_vars = saved
    body = z3.BoolVal(body) if isinstance(body, bool) else body
    return sym.sbool(z3.ForAll([v], body))


def _p_date_of(fmt_name):
    def run(interp, args, kwargs, env):
        from . import models

        f = sym.ufun("parse_" + fmt_name, z3.StringSort(), z3.IntSort())
        return sym.SDate(f(sym.zstr(args[0])))

    return run


def _p_valid_date(fmt_name):
    def run(interp, args, kwargs, env):
        f = sym.ufun("valid_" + fmt_name, z3.StringSort(), z3.BoolSort())
        return sym.sbool(f(sym.zstr(args[0])))

    return run


def _p_plist_append(interp, args, kwargs, env):
    l, x = args
    l = sym.force(interp.ctx, l) if isinstance(l, SOpt) else l
    if isinstance(l, sym.PList):
        return sym.PList(l.base, l.tail + [x])
    if isinstance(l, list):
        return l + [x]
    raise Unsupported("plist_append on " + type(l).__name__)


def _p_plist_last(interp, args, kwargs, env):
    (l,) = args
    l = sym.force(interp.ctx, l) if isinstance(l, SOpt) else l
    tail = l.tail if isinstance(l, sym.PList) else l
    if not tail:
        raise SpecError("plist_last of a list with no known last element")
    return tail[-1]


def _p_ghost(interp, args, kwargs, env):
    """ghost('name'): a ghost value installed by the prelude / maintained by stubs (pre-state inside old(...))"""
    name = args[0]
    u = interp.ctx.ghost.get("user", {})  # old(...) evaluates with the pre-state ghost installed
    if name not in u:
        raise SpecError(f"ghost {name!r} is not defined")
    return u[name]


def _p_printed(interp, args, kwargs, env):
    """printed(): the lines written to standard output so far by print(one string), in order (ghost `stdout`)"""
    out = []
    for a, kw in interp.ctx.ghost.get("stdout", []):
        if kw or len(a) != 1:
            raise SpecError("printed(): only print(<one value>) calls are modelled")
        out.append(interp.to_str(a[0]))
    return out


PRIMS = {
    "printed": Prim("printed", _p_printed),
    "ghost": Prim("ghost", _p_ghost),
    "plist_append": Prim("plist_append", _p_plist_append),
    "plist_last": Prim("plist_last", _p_plist_last),
    "date_of_ymd": Prim("date_of_ymd", _p_date_of("Ymd")),
    "valid_ymd": Prim("valid_ymd", _p_valid_date("Ymd")),
    "date_of_y_m_d": Prim("date_of_y_m_d", _p_date_of("Y_m_d")),
    "valid_y_m_d": Prim("valid_y_m_d", _p_valid_date("Y_m_d")),
    "forall_str": Prim("forall_str", _p_forall_str),
    "implies": Prim("implies", _p_implies),
    "forall": Prim("forall", _quant("forall")),
    "exists": Prim("exists", _quant("exists")),
    "fs_exists": Prim("fs_exists", _p_fs_exists),
    "fs_unchanged": Prim("fs_unchanged", _p_fs_unchanged),
    "fs_only_changed": Prim("fs_only_changed", _p_fs_only_changed),
    "fs_read": Prim("fs_read", _p_fs_read),
    "json_map": Prim("json_map", _p_json_map),
    "ymd": Prim("ymd", _p_ymd),
    "fullmatch": Prim("fullmatch", _p_fullmatch),
    "map_set": Prim("map_set", _p_map_set),
    "map_get": Prim("map_get", _p_map_get),
    "today": Prim("today", _p_today),
}


# native counterparts (used when contract files are executed natively: replay, bounded tier)
def fs_exists(p):
    import pathlib

    return pathlib.Path(str(p)).exists()


def fs_read(p):
    import pathlib

    return pathlib.Path(str(p)).read_text()


def fs_unchanged():
    raise NotImplementedError("fs_unchanged is symbolic-only (the bounded tier compares directory snapshots)")


def ghost(name):
    raise NotImplementedError("ghost values exist in the symbolic run only")


def fs_only_changed(*p):
    raise NotImplementedError("fs_only_changed is symbolic-only")


def json_map(s):
    import json

    return json.loads(s)


def ymd(d):
    return d.strftime("%Y%m%d")


def fullmatch(pat, s):
    import re

    return re.fullmatch(pat, s) is not None


def map_set(m, k, v):
    r = dict(m)
    r[k] = v
    return r


def map_get(m, k, d):
    return m.get(k, d)


def printed():
    raise NotImplementedError("printed() is a verifier-only primitive (standard output ghost)")


def today():
    import datetime

    return datetime.date.today()


def _strp(s, fmt):
    import datetime

    try:
        return datetime.datetime.strptime(s, fmt).date()
    except ValueError:
        return None


def date_of_ymd(s):
    return _strp(s, "%Y%m%d")


def valid_ymd(s):
    return _strp(s, "%Y%m%d") is not None


def date_of_y_m_d(s):
    return _strp(s, "%Y-%m-%d")


def valid_y_m_d(s):
    return _strp(s, "%Y-%m-%d") is not None


def plist_append(l, x):
    return list(l) + [x]


def plist_last(l):
    return l[-1]


def forall_str(f):
    """native: unbounded quantification over strings cannot be executed; callers use map equality instead"""
    raise NotImplementedError("forall_str is symbolic-only")


# ---------------------------------------------------------------------------------------
# clause evaluation
# ---------------------------------------------------------------------------------------
_PARSED: dict[str, ast.AST] = {}


def parse_clause(s: str) -> ast.AST:
    if s not in _PARSED:
        _PARSED[s] = ast.parse(s.strip(), mode="eval").body
    return _PARSED[s]


def eval_clause(interp, c: dict, clause: str, loc: dict, old: Optional[dict], result):
    """Evaluates a contract clause to a term. `old(e)` evaluates e in the pre-state snapshot."""
    from .interp import Env

    node = parse_clause(clause)
    l = dict(loc)
    l["result"] = result
    env = Env(c["gl"], l)
    env.func = _SpecFunc(c)
    saved = interp.old_env
    interp.old_env = old
    interp.spec_mode += 1
    try:
        return _eval_spec(interp, node, env)
    except sym.PyRaise as e:
        raise SpecError(f"clause `{clause}` raised {e}")
    finally:
        interp.spec_mode -= 1
        interp.old_env = saved


def eval_clause_env(interp, clause: str, env):
    """Loop invariants: evaluated over the live locals of the function."""
    from .interp import Env

    c = interp.current_contract
    node = parse_clause(clause)
    e2 = Env(c["gl"], dict(env.locals))
    e2.func = _SpecFunc(c)
    interp.spec_mode += 1
    try:
        return _eval_spec(interp, node, e2)
    except sym.PyRaise as e:
        raise SpecError(f"invariant `{clause}` raised {e}")
    finally:
        interp.spec_mode -= 1


class _SpecFunc:
    def __init__(self, c):
        self.modname = c["module"]
        self.qualname = "<clause>"
        self.is_spec = True
        self.node = None
        self.key = self.modname + ":<clause>"


def _eval_spec(interp, node, env):
    return interp.eval(node, env)


# ---------------------------------------------------------------------------------------
# snapshots and havoc
# ---------------------------------------------------------------------------------------
def snapshot(v, memo=None):
    if memo is None:
        memo = {}
    if id(v) in memo:
        return memo[id(v)]
    if isinstance(v, Rec):
        r = Rec(v.cls_name, {}, v.cls)
        memo[id(v)] = r
        r.fields = {k: snapshot(x, memo) for k, x in v.fields.items()}
        return r
    if isinstance(v, (SList, sym.PList)):
        r = v.copy()
        memo[id(v)] = r
        return r
    if isinstance(v, SMap):
        r = v.copy()
        memo[id(v)] = r
        return r
    if isinstance(v, list):
        r = []
        memo[id(v)] = r
        r.extend(snapshot(x, memo) for x in v)
        return r
    if isinstance(v, dict):
        r = {}
        memo[id(v)] = r
        for k, x in v.items():
            r[k] = snapshot(x, memo)
        return r
    if isinstance(v, tuple):
        return tuple(snapshot(x, memo) for x in v)
    if isinstance(v, SOpt):
        return SOpt(v.isnone, snapshot(v.val, memo))
    return v


def _resolve_parent(interp, path: str, loc: dict):
    from .interp import Env

    node = ast.parse(path, mode="eval").body
    if isinstance(node, ast.Name):
        return None, node.id
    if isinstance(node, ast.Attribute):
        parent = interp.eval(node.value, Env({}, loc))
        return parent, node.attr
    if isinstance(node, ast.Subscript):
        parent = interp.eval(node.value, Env({}, loc))
        return parent, ("[]", interp.eval(node.slice, Env({}, loc)))
    raise SpecError(f"bad modifies path {path}")


def _replace_in_place(obj, freshv) -> bool:
    if isinstance(obj, SList) and isinstance(freshv, SList):
        obj.length, obj.arr = freshv.length, freshv.arr
        return True
    if isinstance(obj, sym.PList) and isinstance(freshv, sym.PList):
        obj.base, obj.tail = freshv.base, freshv.tail
        return True
    if isinstance(obj, SMap) and isinstance(freshv, SMap):
        obj.has, obj.val = freshv.has, freshv.val
        return True
    if isinstance(obj, Rec) and isinstance(freshv, Rec):
        obj.fields = freshv.fields
        return True
    return False


def havoc_paths(interp, modifies: dict, loc: dict):
    for path, ty in modifies.items():
        parent, key = _resolve_parent(interp, path, loc)
        freshv = ty.fresh(interp.ctx, "havoc:" + path)
        # a havocked object list may be *defined* by a positive equation of the postcondition (Interp._bind_plists)
        stack, seen = [freshv], set()
        while stack:
            x = stack.pop()
            if id(x) in seen:
                continue
            seen.add(id(x))
            if isinstance(x, sym.PList) and x.base is not None:
                interp.unbound_bases.add(x.base.get_id())
            elif isinstance(x, Rec):
                stack.extend(x.fields.values())
            elif isinstance(x, sym.SOpt):
                stack.append(x.val)
        if parent is None:
            cur = loc.get(key)
            if not _replace_in_place(cur, freshv):
                if isinstance(cur, list):
                    raise Unsupported(f"havoc of concrete-length list argument {path}")
                loc[key] = freshv
        else:
            parent = sym.force(interp.ctx, parent)
            if parent is None:
                continue  # the owner is None in this state: the location does not exist (modifies is an upper bound)
            if isinstance(parent, Rec) and isinstance(key, str):
                cur = parent.fields.get(key)
                if not _replace_in_place(cur, freshv):
                    parent.fields[key] = freshv
            elif isinstance(parent, dict) and isinstance(key, tuple):
                parent[key[1]] = freshv
            else:
                raise Unsupported(f"havoc target {path}")


def havoc_locals(interp, modifies: dict, env):
    for name, ty in modifies.items():
        if "." in name or "[" in name:
            havoc_paths(interp, {name: ty}, env.locals)
            continue
        freshv = ty.fresh(interp.ctx, "loop:" + name)
        cur = env.locals.get(name)
        if not _replace_in_place(cur, freshv):
            if isinstance(cur, list) and isinstance(freshv, SList):
                env.locals[name] = freshv
            else:
                env.locals[name] = freshv
