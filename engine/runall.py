import sys, json
sys.path.insert(0, "/verif")
from engine import check as C, verify as V, spec as S
mods = sys.argv[1].split(",")
flt = sys.argv[2] if len(sys.argv) > 2 else ""
cs = V.load_contracts(mods)
jobs = [("fn", k, mods, "quick", "X") for k, c in cs.items() if flt in k and not c.get("assumed")]
jobs += [("lemma", k, mods, "quick", "X") for k in S.LEMMAS if flt in k]
for r in C.run_pool(jobs, 12):
    print("==", r["function"], r["status"], r.get("undecided_reason") or "", f"paths={r.get('paths')} wall={r.get('wall_s')}")
    if r["status"] == "crash": print(r["traceback"][-1500:])
    for o in r["obligations"]:
        if o["status"] != "proved": print("   ", o["status"], o["name"], (o.get("why") or "")[:300].replace("\n", " "))
