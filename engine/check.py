"""./check Cxx --tier quick|thorough   |   ./check --replay <file>

Runs every obligation of a property (functions under contract + lemmas + extra deductive
obligations such as lexer regex lemmas), then the bounded stand-ins, applies the committed
known-findings file, replays counter-models on the real code, writes evidence/<id>.json.

Exit codes: 0 held on everything explored (known findings printed) / 1 VIOLATION / 3 checker crash.
An obligation that is merely undecided is never a violation.
"""
from __future__ import annotations

import argparse
import importlib
import json
import os
import sys
import time
import traceback

VERIF = os.path.dirname(os.path.dirname(os.path.abspath(__file__)))
sys.path.insert(0, VERIF)

from engine import replay as R  # noqa: E402
from engine import spec as S  # noqa: E402
from engine import verify as V  # noqa: E402

KF_PATH = os.path.join(VERIF, "known_findings.json")
BASELINE_PATH = os.path.join(VERIF, "baseline_obligations.json")


def load_known():
    if not os.path.exists(KF_PATH):
        return {"findings": [], "fixed": []}
    return json.load(open(KF_PATH))


def apply_known(contracts: dict, pid: str, known: dict):
    for k in known.get("findings", []):
        if k.get("function") in contracts and k.get("class"):
            contracts[k["function"]].setdefault("known", []).append(k)


_TREE_HASH = None


def tree_hash() -> str:
    """Content hash of everything a verdict depends on: /repo/src (working tree), engine, contracts, findings."""
    global _TREE_HASH
    if _TREE_HASH is None:
        import hashlib

        h = hashlib.sha256()
        roots = [os.path.join(os.environ.get("ZORG_SRC", "/repo/src"), "zorg"), os.path.join(VERIF, "engine"), os.path.join(VERIF, "contracts")]
        for root in roots:
            for dp, dn, fn in sorted(os.walk(root)):
                dn.sort()
                for f in sorted(fn):
                    if f.endswith((".py", ".g4", ".json")):
                        p = os.path.join(dp, f)
                        h.update(p.encode())
                        h.update(open(p, "rb").read())
        if os.path.exists(KF_PATH):
            h.update(open(KF_PATH, "rb").read())
        _TREE_HASH = h.hexdigest()
    return _TREE_HASH


def _worker(job):
    """Verifies one function / lemma.  Verdicts are memoised under .cache/ keyed by the content hash of the
    whole input (repo working tree + engine + contracts + findings + tier), so the properties that share
    listener contracts (C01, C02, C08) do not redo identical proofs; any edit to /repo changes the key."""
    kind, key, modnames, tier, pid = job
    try:
        import hashlib

        ck = hashlib.sha256(f"{tree_hash()}|{kind}|{key}|{tier}".encode()).hexdigest()[:32]
        cdir = os.path.join(VERIF, ".cache")
        cpath = os.path.join(cdir, ck + ".json")
        if os.environ.get("PYVC_NO_CACHE") != "1" and os.path.exists(cpath):
            r = json.load(open(cpath))
            r["cached"] = True
            return r
        sys.setrecursionlimit(20000)
        contracts = V.load_contracts(modnames)
        apply_known(contracts, pid, load_known())
        if kind == "fn":
            r = V.verify_function(key, contracts, tier=tier).to_json()
        else:
            r = V.verify_lemma(key, tier=tier).to_json()
        if r.get("status") in ("proved", "refuted") and not r.get("undecided_reason"):
            os.makedirs(cdir, exist_ok=True)
            tmp = cpath + f".{os.getpid()}.tmp"
            json.dump(r, open(tmp, "w"), default=str)
            os.replace(tmp, cpath)
        return r
    except Exception:
        return {"function": key, "status": "crash", "traceback": traceback.format_exc(), "obligations": [], "vcs": 0, "vcs_discharged": 0}


def _path_worker(task):
    """One path of one function/lemma from a decision prefix; returns the partial report (with .alts)."""
    kind, key, modnames, tier, pid, prefix = task
    try:
        dl = float(os.environ.get("PYVC_POOL_DEADLINE", "0") or 0)
        if dl and time.time() > dl:
            # the pool's wall-clock budget is used up: queued paths are not explored (verdict: undecided, never a violation)
            return (kind, key, {"function": key, "status": "undecided", "undecided_reason": "time budget of the pool exceeded (path not explored)", "obligations": [], "vcs": 0,
                                "vcs_discharged": 0, "paths": 0, "alts": []})
        sys.setrecursionlimit(20000)
        contracts = V.load_contracts(modnames)
        if not getattr(_path_worker, "_kf", False):
            apply_known(contracts, pid, load_known())
            _path_worker._kf = True
        if kind == "fn":
            rep = V.verify_function(key, contracts, tier=tier, start=prefix, one_path=True)
        else:
            rep = V.verify_lemma(key, tier=tier, start=prefix, one_path=True)
        j = rep.to_json()
        alts = rep.alts
        # counter-models may hold interpreter objects (regex stubs, closures): make the report plain JSON before it crosses the
        # process boundary - an unpicklable model must never turn a refutation into a checker crash
        j = json.loads(json.dumps(j, default=lambda o: f"<{type(o).__name__}>"))
        j["alts"] = alts
        return (kind, key, j)
    except Exception:
        return (kind, key, {"function": key, "status": "crash", "traceback": traceback.format_exc(), "obligations": [], "vcs": 0, "vcs_discharged": 0, "alts": []})


def _cache_path(kind, key, tier):
    import hashlib

    ck = hashlib.sha256(f"{tree_hash()}|{kind}|{key}|{tier}".encode()).hexdigest()[:32]
    return os.path.join(VERIF, ".cache", ck + ".json")


def run_pool(jobs, nproc):
    """Path-level parallel exploration: every (function, decision prefix) is one task; the alternatives a task
    discovers are scheduled as new tasks.  Verdicts are memoised per function under .cache/ (content hash of
    repo working tree + engine + contracts + findings + tier)."""
    import multiprocessing as mp

    if not jobs:
        return []
    results: dict = {}
    parts: dict = {}
    pending: dict = {}
    truncated: dict = {}
    todo = []
    for kind, key, modnames, tier, pid in jobs:
        cp = _cache_path(kind, key, tier)
        if os.environ.get("PYVC_NO_CACHE") != "1" and os.path.exists(cp):
            r = json.load(open(cp))
            r["cached"] = True
            results[(kind, key)] = r
            continue
        parts[(kind, key)] = []
        pending[(kind, key)] = 1
        todo.append((kind, key, modnames, tier, pid, {}))
    meta = {(k, key): (modnames, tier, pid) for k, key, modnames, tier, pid in jobs}
    t_pool = time.time()
    FN_BUDGET_S = int(os.environ.get("PYVC_POOL_BUDGET_S", "3600" if any(j[3] == "thorough" for j in jobs) else "1500"))
    os.environ["PYVC_POOL_DEADLINE"] = str(t_pool + FN_BUDGET_S)  # inherited by the forked workers
    if todo:
        with mp.get_context("fork").Pool(max(1, nproc)) as pool:
            inflight = [pool.apply_async(_path_worker, (t,)) for t in todo]
            while inflight:
                nxt = []
                progressed = False
                for ar in inflight:
                    if not ar.ready():
                        nxt.append(ar)
                        continue
                    progressed = True
                    kind, key, part = ar.get()
                    k = (kind, key)
                    parts[k].append(part)
                    pending[k] -= 1
                    stop = part.get("status") == "crash" or (part.get("undecided_reason") or "").startswith(("UNSUPPORTED", "SPEC-ERROR", "recursion"))
                    if not stop and k not in truncated and time.time() - t_pool > FN_BUDGET_S:
                        # wall-clock budget of one pool run: the remaining paths are not explored (verdict: undecided)
                        truncated[k] = f"time budget {FN_BUDGET_S}s exceeded"
                    if not stop and k not in truncated:
                        modnames, tier, pid = meta[k]
                        for alt in part.get("alts", []):
                            if len(parts[k]) + pending[k] >= V.MAX_PATHS:
                                truncated[k] = f"path budget {V.MAX_PATHS} exceeded"
                                break
                            pending[k] += 1
                            nxt.append(pool.apply_async(_path_worker, ((kind, key, modnames, tier, pid, alt),)))
                    elif stop:
                        truncated.setdefault(k, None)
                inflight = nxt
                if not progressed:
                    time.sleep(0.02)
    for k, ps in parts.items():
        r = V.merge_parts(k[1] if k[0] == "fn" else "lemma:" + k[1], ps, truncated=truncated.get(k))
        if r.get("status") in ("proved", "refuted") and not r.get("undecided_reason"):
            cp = _cache_path(k[0], k[1], meta[k][1])
            os.makedirs(os.path.dirname(cp), exist_ok=True)
            tmp = cp + f".{os.getpid()}.tmp"
            json.dump(r, open(tmp, "w"), default=str)
            os.replace(tmp, cp)
        results[k] = r
    return [results[(kind, key)] for kind, key, *_ in jobs]


def write_replay(pid, obname, payload) -> str:
    d = os.path.join(VERIF, "replays")
    os.makedirs(d, exist_ok=True)
    safe = obname.replace("/", "_").replace(":", "_").replace("<", "").replace(">", "")
    n = 0
    while True:
        p = os.path.join(d, f"{pid}-{safe}-{n}.json")
        if not os.path.exists(p):
            break
        n += 1
    json.dump(payload, open(p, "w"), indent=1, default=str)
    return os.path.relpath(p, VERIF)


def do_replay(path: str) -> int:
    payload = json.load(open(os.path.join(VERIF, path) if not os.path.isabs(path) else path))
    if payload.get("kind") == "bounded":
        mod = importlib.import_module(payload["module"])
        ok, obs = getattr(mod, payload["replay_fn"])(payload["case"])
        print(f"replay: bounded case -> {'still failing' if not ok else 'passes'}: {obs}")
        return 1 if not ok else 0
    mods = payload["contract_modules"]
    contracts = V.load_contracts(mods)
    c = contracts[payload["function"]]
    r = R.replay_contract(c, payload["inputs"], payload.get("clause"))
    print("replay:", json.dumps(r, default=str)[:1500])
    return 1 if r["reproduced"] else 0


def main(argv=None) -> int:
    ap = argparse.ArgumentParser()
    ap.add_argument("property", nargs="?")
    ap.add_argument("--tier", default=os.environ.get("VERIF_TIER", "quick"))
    ap.add_argument("--replay")
    ap.add_argument("--jobs", type=int, default=int(os.environ.get("VERIF_JOBS", "12")))
    ap.add_argument("--only", help="substring filter on function keys (debugging)")
    a = ap.parse_args(argv)
    if a.replay:
        return do_replay(a.replay)
    pid = a.property
    tier = a.tier if a.tier in ("quick", "thorough") else "quick"
    seed = int(os.environ.get("VERIF_SEED", "0") or 0)
    t0 = time.time()
    import logging

    logging.disable(logging.CRITICAL)  # zorg's own warnings ("Skipping note ...") are not check output
    os.environ["VERIF_TIER"] = tier
    plan = importlib.import_module(f"checks.{pid.lower()}")
    contracts = V.load_contracts(plan.CONTRACTS)
    known = load_known()
    apply_known(contracts, pid, known)

    fn_keys = [k for k, c in contracts.items() if pid in c["props"] and not c.get("assumed")]
    assumed = [k for k, c in contracts.items() if pid in c["props"] and c.get("assumed")]
    lemma_keys = [k for k, l in S.LEMMAS.items() if pid in l["props"]]
    if a.only:
        fn_keys = [k for k in fn_keys if a.only in k]
        lemma_keys = [k for k in lemma_keys if a.only in k]
    jobs = [("fn", k, plan.CONTRACTS, tier, pid) for k in fn_keys] + [("lemma", k, plan.CONTRACTS, tier, pid) for k in lemma_keys]
    # extra deductive obligations (regex lemmas, ATN walk obligations ...) provided by the plan run next to the function pool
    import concurrent.futures as cf
    import multiprocessing as mp

    extras = [] if a.only else list(getattr(plan, "EXTRA", []))
    ex = cf.ProcessPoolExecutor(max_workers=max(1, len(extras)), mp_context=mp.get_context("fork")) if extras else None
    futs = [(fn, ex.submit(fn, tier, seed)) for fn in extras]
    try:
        reports = run_pool(jobs, a.jobs)
    except Exception:
        # the deductive part failed as a whole (never expected): report it as a crash and still run the bounded tier
        tb = traceback.format_exc()
        reports = [{"function": k, "status": "crash", "traceback": tb, "obligations": [], "vcs": 0, "vcs_discharged": 0} for _, k, *_ in jobs]
    # second chance: a verdict left open only by solver budgets (unknown / timeout under load) is re-run with four times the
    # budget and few workers, so that a busy machine does not turn a proof into "undecided"
    def _only_budget(r):
        if r.get("status") != "undecided" or r.get("cached"):
            return False
        reason = r.get("undecided_reason") or ""
        if reason.startswith(("UNSUPPORTED", "SPEC-ERROR", "recursion", "VACUOUS")) or "path budget" in reason or "time budget" in reason:
            return False
        open_obs = [o for o in r.get("obligations", []) if o["status"] != "proved"]
        return bool(open_obs) and all(o["status"] == "undecided" and any(w in (o.get("why") or "") for w in ("unknown", "timeout", "canceled")) for o in open_obs)

    retry = [j for j, r in zip(jobs, reports) if _only_budget(r)]
    if retry:
        os.environ["PYVC_TIMEOUT_SCALE"] = "4"
        again = run_pool(retry, max(1, min(a.jobs, 4)))
        os.environ.pop("PYVC_TIMEOUT_SCALE", None)
        byjob = {(j[0], j[1]): r for j, r in zip(retry, again)}
        for i, j in enumerate(jobs):
            if (j[0], j[1]) in byjob:
                byjob[(j[0], j[1])]["second_chance"] = True
                reports[i] = byjob[(j[0], j[1])]
    extra_reports = []
    for fn, fu in futs:
        try:
            extra_reports.extend(fu.result())
        except Exception:
            extra_reports.append({"function": f"extra:{fn.__name__}", "status": "crash", "traceback": traceback.format_exc(), "obligations": [], "vcs": 0, "vcs_discharged": 0})
    if ex:
        ex.shutdown()
    reports += extra_reports

    violations = []  # (obname, replay path, suffix)
    crashed = [r for r in reports if r["status"] == "crash"]
    undecided = []
    n_ob = n_dis = 0
    backends: dict[str, int] = {}
    solver_time = 0.0
    trusted: set[str] = set()
    samples = []
    vacuous = []
    nb_ob = nb_dis = 0
    for r in reports:
        for o in r["obligations"]:
            if r.get("bounded"):
                nb_ob += 1
                nb_dis += o["status"] == "proved"
            else:
                n_ob += 1
                n_dis += o["status"] == "proved"
            if o["status"] == "proved":
                pass
            else:
                undecided.append({"obligation": o["name"], "status": o["status"], "why": o.get("why", "")[:300]})
            if len(samples) < 12:
                samples.append({"obligation": o["name"], "kind": o["kind"], "status": o["status"], "vcs": o["vcs"], "time_s": o["time_s"], "backends": o.get("backends", []), **({"bounded": r["bounded"]} if r.get("bounded") else {})})
        for b, n in r.get("backends", {}).items():
            backends[b] = backends.get(b, 0) + n
        solver_time += r.get("solver_time_s", 0.0)
        trusted |= set(r.get("used_models", []))
        if r.get("undecided_reason"):
            undecided.append({"function": r["function"], "status": "undecided", "why": r["undecided_reason"]})
        if r.get("vacuous"):
            vacuous.append(r["function"])

    # ---- refuted obligations -> replay on the real code
    for r in reports:
        seen = set()
        for ref in r.get("refuted", []):
            if ref["name"] in seen:
                continue
            seen.add(ref["name"])
            payload = {
                "property": pid,
                "function": r["function"],
                "obligation": ref["name"],
                "clause": ref.get("detail"),
                "inputs": R.to_json(ref.get("model")),
                "solver_output": ref.get("solver_output"),
                "path": ref.get("path"),
                "contract_modules": plan.CONTRACTS,
            }
            reproduced = None
            if r["function"] in contracts and ref.get("model") is not None:
                # try every counter-model the paths produced for this obligation
                models = [x for x in r["refuted"] if x["name"] == ref["name"]][:8]
                for mm in models:
                    rr = R.replay_contract(contracts[r["function"]], mm.get("model") or {}, ref["name"])
                    if rr["reproduced"]:
                        payload["inputs"] = R.to_json(mm.get("model"))
                        payload["replay_result"] = rr
                        reproduced = True
                        break
                    payload.setdefault("replay_attempts", []).append(rr)
            elif ref.get("replay_result"):
                reproduced = bool(ref["replay_result"].get("reproduced"))
                payload["replay_result"] = ref["replay_result"]
            path = write_replay(pid, ref["name"], payload)
            violations.append((ref["name"], path, "" if reproduced else " no-failing-input-found"))

    # ---- bounded stand-ins
    bounded_results = []
    for fn in getattr(plan, "BOUNDED", []):
        try:
            br = fn(tier, seed)
        except Exception:
            crashed.append({"function": f"bounded:{fn.__name__}", "traceback": traceback.format_exc()})
            continue
        for b in br if isinstance(br, list) else [br]:
            fails = b.pop("failures", [])
            kf_hits = []
            for f in fails:
                kf = _match_known_case(known, pid, b["name"], f)
                if kf:
                    kf_hits.append(kf)
                    continue
                payload = {"kind": "bounded", "property": pid, "check": b["name"], "module": plan.__name__, "replay_fn": b.get("replay_fn", "replay_case"), "case": f}
                path = write_replay(pid, "bounded_" + b["name"], payload)
                violations.append((f"bounded:{b['name']}", path, ""))
                if len([v for v in violations if v[0] == f"bounded:{b['name']}"]) >= 3:
                    break
            b["failures"] = len(fails)
            b["known_finding_hits"] = len(kf_hits)
            bounded_results.append(b)

    # ---- known findings: replay each witness; print KNOWN-FINDING while it still fails
    kf_lines = []
    for k in known.get("findings", []):
        if k["property"] != pid:
            continue
        still = _replay_known(k, contracts, plan)
        if still:
            kf_lines.append(f"KNOWN-FINDING: property={pid} {k['what']}")
    wall = time.time() - t0

    level = plan.LEVEL
    all_dis = n_ob > 0 and n_dis == n_ob and not crashed and nb_ob == 0
    if level == "proof" and not all_dis:
        level = "other"
    ev_total = sum(b.get("evaluations", 0) for b in bounded_results)
    ev_nontriv = sum(b.get("distinct_nontrivial", 0) for b in bounded_results)
    coverage = {
        "obligations": n_ob,
        "discharged": n_dis,
        "checker_cmd": f"./check {pid} --tier {tier}",
        "trusted_base": sorted(trusted | set(getattr(plan, "TRUSTED", []))),
        "functions_under_contract": [{"function": r["function"], "status": r["status"], "source": r.get("source_file", ""), "lines": r.get("source_lines"), "paths": r.get("paths"), "vcs": r.get("vcs"), "vcs_discharged": r.get("vcs_discharged"), "bounded": r.get("bounded"), "inlined_callees": r.get("inlined", []), "callee_contracts_used": r.get("used_contracts", [])} for r in reports],
        "assumed_contracts": sorted(set(assumed) | {k for r in reports for k in r.get("used_contracts", []) if k in contracts and contracts[k].get("assumed")}),
        "bounded_symbolic_obligations": nb_ob,
        "bounded_symbolic_discharged": nb_dis,
        "bounded_symbolic_note": "obligations of functions verified with a stated bound on list lengths (contents fully symbolic); labelled bounded, not counted under obligations/discharged",
        "memoised_function_verdicts": sum(1 for r in reports if r.get("cached")),
        "vcs_total": sum(r.get("vcs", 0) for r in reports),
        "vcs_discharged": sum(r.get("vcs_discharged", 0) for r in reports),
        "backends": backends,
        "solver_time_s": round(solver_time, 2),
        "bounded_checks": bounded_results,
        "known_findings_reproduced": kf_lines,
        "undecided": undecided[:40],
        "vacuous": vacuous,
        "samples": samples + [s for b in bounded_results for s in b.get("samples", [])[:3]],
        "explanation": getattr(plan, "EXPLANATION", ""),
        "evaluations": max(ev_total, n_ob + nb_ob),
        "distinct_nontrivial": max(ev_nontriv, len({s["obligation"] for s in samples}) if not ev_nontriv else ev_nontriv),
        "rule": getattr(plan, "RULE", "obligations: one per contract clause per function (aggregated over paths); bounded cases: see bounded_checks[*].bound"),
        "exhaustive": False,
    }
    evidence = {
        "property_id": pid,
        "tier": tier,
        "seed": seed,
        "level": level,
        "coverage": coverage,
        "assumptions": sorted(set(getattr(plan, "ASSUMPTIONS", [])) | trusted),
        "wall_s": round(wall, 2),
        "violations": len(violations),
    }
    os.makedirs(os.path.join(VERIF, "evidence"), exist_ok=True)
    json.dump(evidence, open(os.path.join(VERIF, "evidence", f"{pid}.json"), "w"), indent=1, default=str)

    for line in kf_lines:
        print(line)
    print(f"[{pid}] tier={tier} functions={len(fn_keys)} lemmas={len(lemma_keys)} obligations={n_ob} discharged={n_dis} bounded-symbolic={nb_dis}/{nb_ob} "
          f"undecided={len(undecided)} bounded={len(bounded_results)} evals={ev_total} wall={wall:.1f}s level={level}")
    for u in undecided[:10]:
        print("  undecided:", json.dumps(u)[:300])
    if crashed:
        for cr in crashed:
            print("CHECKER-CRASH", cr.get("function"), (cr.get("traceback") or "")[-1500:], file=sys.stderr)
        if not violations:
            return 3
    if violations:
        for ob, path, suffix in violations:
            print(f"  failed obligation: {ob} -> {path}")
            print(f"VIOLATION property={pid} replay={path}{suffix}")
        return 1
    return 0


def _match_known_case(known, pid, check_name, failure) -> dict | None:
    """A bounded failure is covered by a known finding iff the finding's `case_class` accepts it."""
    for k in known.get("findings", []):
        if k["property"] != pid or not k.get("case_class"):
            continue
        if k.get("check") and k["check"] != check_name:
            continue
        try:
            mod = importlib.import_module(k["case_class"]["module"])
            if getattr(mod, k["case_class"]["fn"])(failure):
                return k
        except Exception:
            continue
    return None


def _replay_known(k: dict, contracts: dict, plan) -> bool:
    """True iff the recorded witness still violates the property on the current tree."""
    try:
        if k.get("witness_fn"):
            mod = importlib.import_module(k["witness_fn"]["module"])
            return bool(getattr(mod, k["witness_fn"]["fn"])())
        if k.get("function") in contracts and k.get("witness") is not None:
            rr = R.replay_contract(contracts[k["function"]], k["witness"], k.get("obligation"))
            return bool(rr["reproduced"])
    except Exception:
        traceback.print_exc()
    return False


if __name__ == "__main__":
    try:
        rc = main()
    except SystemExit:
        raise
    except Exception:
        traceback.print_exc()
        rc = 3
    sys.exit(rc)
