"""Library models = assumed contracts of everything outside zorg (DESIGN.md 2.5).

Each model that is *used* on a path is recorded in interp.used_models; the evidence files
list them as trusted_base.  Pure builtins applied to concrete arguments are simply run.
"""
from __future__ import annotations

import builtins
import dataclasses
import datetime as dt
import enum
import functools
import operator
import types
import typing
from typing import Any

import z3

from . import sym
from .ctx import Abort, Unsupported
from .sym import (
    BStr,
    PList,
    Opaque,
    PyRaise,
    Rec,
    SDate,
    SEnum,
    SList,
    SMap,
    SOpt,
    SV,
    is_concrete,
    mk,
    zint,
    zstr,
)

MISSING = None  # set below to interp.MISSING to avoid a circular import


def _missing():
    from .interp import MISSING as M

    return M


# ---------------------------------------------------------------------------------------
# regexes for string-class predicates (ASCII input domain, stated assumption A-ASCII)
# ---------------------------------------------------------------------------------------
def re_range(a, b):
    return z3.Range(z3.StringVal(a), z3.StringVal(b))


DIGIT = re_range("0", "9")
WS_CHARS = " \t\n\r\x0b\x0c"
WS = z3.Union(*[z3.Re(z3.StringVal(c)) for c in WS_CHARS])


def _is_ws_code(c):
    return z3.Or(*[c == ord(ch) for ch in WS_CHARS])


# ---------------------------------------------------------------------------------------
# hooks used by the interpreter
# ---------------------------------------------------------------------------------------
def with_enter(interp, v):
    if isinstance(v, _FileHandle):
        return v
    if isinstance(v, Rec) and v.cls_name in ("no_autoflush",):
        return v
    raise Unsupported(f"with-statement on {type(v).__name__}")


def to_str(interp, v):
    if isinstance(v, Rec) and v.cls_name == "Path":
        return v.fields["s"]
    if isinstance(v, SDate):
        raise Unsupported("str(date)")
    raise Unsupported(f"str() of {type(v).__name__}")


def binop(interp, op, a, b):
    M = _missing()
    ctx = interp.ctx
    # date arithmetic
    if isinstance(a, SDate) and isinstance(b, dt.timedelta) and b.seconds == 0 and b.microseconds == 0:
        b = _TimeDelta(b.days)
    if isinstance(a, SDate) and isinstance(b, _TimeDelta):
        interp.used_models.add("datetime: date +/- timedelta(days=n) is day-number arithmetic")
        if op == "Add":
            return SDate(a.t + zint(b.days))
        if op == "Sub":
            return SDate(a.t - zint(b.days))
    if isinstance(a, SDate) and isinstance(b, _RelDelta):
        interp.used_models.add("dateutil.relativedelta: months/years addition with end-of-month clamping (uninterpreted add_months)")
        f = sym.ufun("add_months", z3.IntSort(), z3.IntSort(), z3.IntSort())
        n = zint(b.months)
        if op == "Add":
            return SDate(f(a.t, n))
        if op == "Sub":
            return SDate(f(a.t, -n))
    if isinstance(a, Rec) and a.cls_name == "Path" and op == "Div":
        interp.used_models.add("pathlib: p / s joins with '/'")
        bs = b.fields["s"] if isinstance(b, Rec) and b.cls_name == "Path" else b
        return mk_path(sym.str_concat(sym.str_concat(a.fields["s"], "/"), bs))
    return M


def compare(interp, op, a, b):
    return _missing()


def subscript(interp, v, idx):
    return _missing()


def getattr(interp, obj, name):
    M = _missing()
    if isinstance(obj, Rec) and obj.cls_name == "Pattern":
        # re.Pattern stub: match(s) is an uninterpreted relation of (pattern, text); groupdict() an uninterpreted map
        if name == "match":
            def _match(text, _o=obj):
                t = zstr(text)
                pid = _o.fields["id"]
                m = sym.ufun("re_matches", pid.sort(), z3.StringSort(), z3.BoolSort())(pid, t)
                A = z3.ArraySort(z3.StringSort(), z3.BoolSort())
                B = z3.ArraySort(z3.StringSort(), z3.StringSort())
                has = sym.ufun("re_groupdict_has", pid.sort(), z3.StringSort(), A)(pid, t)
                val = sym.ufun("re_groupdict_val", pid.sort(), z3.StringSort(), B)(pid, t)
                interp.used_models.add("re: Pattern.match(text) and Match.groupdict() are uninterpreted functions of (pattern, text)")
                return sym.SOpt(z3.Not(m), Rec("Match", {"gd": SMap(has, val, sym.TStr(), sym.TStr())}))
            return _Closure(_match)
        raise Unsupported(f"Pattern.{name}")
    if isinstance(obj, Rec) and obj.cls_name == "Match":
        if name == "groupdict":
            return _Closure(lambda _o=obj: _o.fields["gd"].copy())
        raise Unsupported(f"Match.{name}")
    if isinstance(obj, Rec) and obj.cls_name == "Path":
        if name == "parent":
            interp.used_models.add("pathlib: Path.parent is an uninterpreted function of the path (directories are not part of the file map)")
            return mk_path(sym.sstr(sym.ufun("path_parent", z3.StringSort(), z3.StringSort())(zstr(obj.fields["s"]))))
        if name == "suffix":
            interp.used_models.add("pathlib: Path.suffix is an uninterpreted function of the path")
            return sym.sstr(sym.ufun("path_suffix", z3.StringSort(), z3.StringSort())(zstr(obj.fields["s"])))
        if name in ("name", "stem"):
            raise Unsupported(f"Path.{name} on symbolic path")
        if name not in obj.fields:
            from .interp import BoundM

            return BoundM(obj, name)
    if isinstance(obj, _FileHandle):
        from .interp import BoundM

        return BoundM(obj, name)
    if isinstance(obj, Rec) and obj.cls_name == "ParserCtx":
        # A-ANTLR-TREE stub: getText() = concatenation of leaf texts; rule accessors return child contexts
        if name == "getText":
            return _Closure(lambda: obj.fields["text"])
        if name in ("children", "start"):
            return obj.fields[name]
        if "sub:" + name in obj.fields:
            return _Closure(lambda: obj.fields["sub:" + name])
        raise Unsupported(f"parser context accessor {name} not declared in the contract")
    return M


def iterate(interp, v):
    return _missing()


# ---------------------------------------------------------------------------------------
# small model objects
# ---------------------------------------------------------------------------------------
class _Closure:
    def __init__(self, fn):
        self.fn = fn


class _TimeDelta:
    def __init__(self, days):
        self.days = days


class _RelDelta:
    def __init__(self, months):
        self.months = months


class _FileHandle:
    def __init__(self, path, mode):
        self.path, self.mode = path, mode


def mk_path(s):
    return Rec("Path", {"s": s})


def today(interp) -> SDate:
    g = interp.ctx.ghost
    if "TODAY" not in g:
        g["TODAY"] = SDate(z3.Int("TODAY"))
    interp.used_models.add("clock: date.today()/datetime.now() is one constant TODAY per command")
    return g["TODAY"]


# date <-> string functions are uninterpreted, with the shape facts that callers rely on
def ymd_of(interp, d: SDate, shape=False):
    """strftime('%Y%m%d'): an uninterpreted function of the day number, 8 characters long
    (years 1000..9999 - stated input domain).  shape=True additionally assumes the digits and the
    strptime round trip (used where a caller parses the text back)."""
    f = sym.ufun("strftime_Ymd", z3.IntSort(), z3.StringSort())
    s = f(d.t)
    interp.ctx.assume(z3.Length(s) == 8)
    interp.used_models.add("datetime: strftime('%Y%m%d') is a function of the date and yields 8 characters (years 1000-9999)")
    if shape:
        interp.ctx.assume(z3.InRe(s, z3.Loop(DIGIT, 8, 8)))
        p = sym.ufun("parse_Ymd", z3.StringSort(), z3.IntSort())
        v = sym.ufun("valid_Ymd", z3.StringSort(), z3.BoolSort())
        interp.ctx.assume(z3.And(p(s) == d.t, v(s)))
        interp.used_models.add("datetime: strftime('%Y%m%d') yields 8 digits and round-trips through strptime")
    return sym.sstr(s)


def parse_date(interp, s, fmt):
    """datetime.strptime(s, fmt): raises ValueError iff s is not a calendar date in fmt."""
    if fmt == "%Y%m%d":
        p = sym.ufun("parse_Ymd", z3.StringSort(), z3.IntSort())
        v = sym.ufun("valid_Ymd", z3.StringSort(), z3.BoolSort())
        shape = z3.Loop(DIGIT, 8, 8)
    elif fmt == "%Y-%m-%d":
        p = sym.ufun("parse_Y_m_d", z3.StringSort(), z3.IntSort())
        v = sym.ufun("valid_Y_m_d", z3.StringSort(), z3.BoolSort())
        shape = None
    else:
        raise Unsupported(f"strptime format {fmt!r}")
    zs = zstr(s)
    interp.used_models.add(f"datetime: strptime(s, {fmt!r}) raises ValueError iff s is not a calendar date (uninterpreted valid/parse)")
    if shape is not None:
        interp.ctx.assume(z3.Implies(v(zs), z3.InRe(zs, shape)))
    if not interp.ctx.branch(v(zs), f"valid date {fmt}"):
        raise PyRaise("ValueError", "time data does not match format")
    return SDate(p(zs))


# ---------------------------------------------------------------------------------------
# native calls
# ---------------------------------------------------------------------------------------
_PURE_MODULES = {
    "builtins", "operator", "re", "itertools", "functools", "dataclasses", "os.path", "posixpath",
    "json", "typing", "enum", "collections", "string", "math", "copy", "dateutil.relativedelta",
    "_operator", "_functools", "itertools", "_collections", "typist", "typist._types",
}
_IMPURE_NAMES = {
    "open", "print", "input", "exec", "eval", "compile", "__import__", "exit", "quit", "breakpoint",
}
_IMPURE_PATH_METHODS = {
    "exists", "read_text", "write_text", "read_bytes", "write_bytes", "open", "mkdir", "unlink", "rename",
    "rglob", "glob", "touch", "is_file", "is_dir", "iterdir", "stat", "resolve", "absolute", "expanduser",
    "cwd", "home", "rmdir", "replace", "chmod", "samefile", "symlink_to", "lstat", "owner", "group",
}


def _exception_class(fn):
    return isinstance(fn, type) and issubclass(fn, BaseException)


def call_native(interp, fn, args, kwargs):
    ctx = interp.ctx
    name = builtins.getattr(fn, "__name__", repr(fn))
    mod = builtins.getattr(fn, "__module__", None) or ""
    # ---- typing helpers
    if fn is typing.cast:
        return args[1]
    if name == "assert_never":
        raise PyRaise("AssertionError", "assert_never")
    if type(fn).__name__ == "NewType" or builtins.getattr(fn, "__supertype__", None) is not None:
        return args[0]  # typing.NewType is the identity at run time
    if fn is functools.partial:
        from .interp import _Partial

        return _Partial(args[0], args[1:], kwargs)
    # ---- user model table
    key = f"{mod}.{builtins.getattr(fn, '__qualname__', name)}"
    if key in NATIVE_MODELS:
        return NATIVE_MODELS[key](interp, args, kwargs)
    if fn in NATIVE_MODELS_BY_ID:
        return NATIVE_MODELS_BY_ID[fn](interp, args, kwargs)
    # ---- zorg dataclasses and enums
    if isinstance(fn, type):
        if issubclass(fn, enum.Enum):
            if is_concrete(args):
                try:
                    return fn(*args)
                except ValueError as e:
                    raise PyRaise("ValueError", str(e))
            raise Unsupported(f"enum lookup {fn.__name__}(symbolic)")
        if dataclasses.is_dataclass(fn):
            return make_dataclass(interp, fn, args, kwargs)
        if _exception_class(fn):
            return Rec("exception", {"etype": fn.__name__, "args": args})
    # ---- builtins with symbolic arguments
    if mod == "builtins" and name in BUILTIN_MODELS and not (is_concrete(args) and is_concrete(kwargs)):
        return BUILTIN_MODELS[name](interp, args, kwargs)
    # ---- pure native call on concrete arguments
    if is_concrete(args) and is_concrete(kwargs):
        if name in _IMPURE_NAMES and mod == "builtins":
            raise Unsupported(f"impure builtin {name}")
        if mod in _PURE_MODULES or mod.startswith("zorg.domain.types") or isinstance(fn, type) and mod in ("datetime", "pathlib", "builtins"):
            if fn in (dt.date.today, dt.datetime.now, dt.datetime.today):
                return today(interp)
            try:
                return fn(*args, **kwargs)
            except Exception as e:  # a concrete exception of the interpreted program
                raise PyRaise(type(e).__name__, str(e))
        if isinstance(fn, (types.BuiltinFunctionType, types.MethodType, types.BuiltinMethodType)) and mod in ("datetime",):
            if name in ("today", "now"):
                return today(interp)
            try:
                return fn(*args, **kwargs)
            except Exception as e:
                raise PyRaise(type(e).__name__, str(e))
    if mod == "builtins" and name in BUILTIN_MODELS:
        return BUILTIN_MODELS[name](interp, args, kwargs)
    if isinstance(fn, (types.BuiltinMethodType, types.MethodType)) or type(fn).__name__ in ("method_descriptor", "builtin_function_or_method", "classmethod_descriptor"):
        selfobj = builtins.getattr(fn, "__self__", None)
        if selfobj is dt.datetime and name == "strptime":
            return parse_date(interp, args[0], args[1])
        if selfobj in (dt.date, dt.datetime) and name in ("today", "now"):
            return today(interp)
    if fn is dt.timedelta:
        if set(kwargs) <= {"days"} and len(args) <= 1:
            return _TimeDelta(kwargs.get("days", args[0] if args else 0))
    if name == "relativedelta":
        if set(kwargs) == {"months"}:
            return _RelDelta(kwargs["months"])
        if set(kwargs) == {"years"}:
            return _RelDelta(sym.binop(ctx, "Mult", kwargs["years"], 12))
    raise Unsupported(f"call of native {mod}.{name} with symbolic arguments (no model)")


def make_dataclass(interp, cls, args, kwargs):
    if "__post_init__" in cls.__dict__:
        raise Unsupported(f"dataclass {cls.__name__} with __post_init__")
    fields = {}
    fl = [f for f in dataclasses.fields(cls) if f.init]
    if len(args) > len(fl):
        raise PyRaise("TypeError", f"too many arguments for {cls.__name__}")
    for f, v in zip(fl, args):
        fields[f.name] = v
    for k, v in kwargs.items():
        if k not in {f.name for f in fl}:
            raise PyRaise("TypeError", f"unexpected keyword {k} for {cls.__name__}")
        if k in fields:
            raise PyRaise("TypeError", f"multiple values for {k}")
        fields[k] = v
    for f in dataclasses.fields(cls):
        if f.name in fields:
            continue
        if f.default is not dataclasses.MISSING:
            fields[f.name] = f.default
        elif f.default_factory is not dataclasses.MISSING:
            fields[f.name] = f.default_factory()
        else:
            raise PyRaise("TypeError", f"missing argument {f.name} for {cls.__name__}")
    return Rec(cls.__name__, fields, cls=cls)


# ---------------------------------------------------------------------------------------
# builtins on symbolic values
# ---------------------------------------------------------------------------------------
def _b_len(interp, args, kwargs):
    (v,) = args
    v = sym.force(interp.ctx, v) if isinstance(v, SOpt) else v
    if isinstance(v, (list, tuple, dict, str, set, BStr)):
        return len(v)
    if isinstance(v, SV) and v.kind == "str":
        return sym.sint(z3.Length(v.t))
    if isinstance(v, SList):
        return v.length
    from .interp import _SymSet

    if isinstance(v, _SymSet):
        raise Unsupported("len of symbolic set")
    if v is None:
        raise PyRaise("TypeError", "object of type 'NoneType' has no len()")
    if isinstance(v, sym.PList) and v.base is None:
        return len(v.tail)
    raise Unsupported(f"len of {type(v).__name__}")


def _b_str(interp, args, kwargs):
    if not args:
        return ""
    return interp.to_str(args[0])


def _b_int(interp, args, kwargs):
    (v,) = args
    v = mk(v)
    if sym.is_intlike(v):
        return v
    if isinstance(v, BStr):
        # int() of a bounded digit string; ValueError otherwise (no sign/whitespace: token domain)
        if len(v) == 0:
            raise PyRaise("ValueError", "invalid literal for int()")
        ok = z3.And(*[z3.And(c >= 48, c <= 57) if not isinstance(c, int) else z3.BoolVal(48 <= c <= 57) for c in v.chars])
        if not interp.ctx.branch(ok, "int(): all digits"):
            raise PyRaise("ValueError", "invalid literal for int()")
        acc = z3.IntVal(0)
        for c in v.chars:
            acc = acc * 10 + ((c if not isinstance(c, int) else z3.IntVal(c)) - 48)
        return sym.sint(acc)
    if isinstance(v, SV) and v.kind == "str":
        interp.used_models.add("int(s): for a non-empty all-digit s equals the uninterpreted dec(s) = str.to_int; ValueError otherwise (ASCII digits, no sign/space: token domain)")
        ok = z3.InRe(v.t, z3.Plus(DIGIT))
        if not interp.ctx.branch(ok, "int(): all digits"):
            raise PyRaise("ValueError", "invalid literal for int()")
        return sym.sint(z3.StrToInt(v.t))
    if isinstance(v, SV) and v.kind == "bool":
        return sym.sint(zint(v))
    raise Unsupported(f"int() of {type(v).__name__}")


def _b_bool(interp, args, kwargs):
    if not args:
        return False
    t = sym.truth_term(interp.ctx, args[0])
    return t if isinstance(t, bool) else sym.sbool(t)


def _b_abs(interp, args, kwargs):
    v = mk(args[0])
    if isinstance(v, int):
        return abs(v)
    t = zint(v)
    return sym.sint(z3.If(t >= 0, t, -t))


def _b_ord(interp, args, kwargs):
    v = mk(args[0])
    if isinstance(v, str):
        return ord(v)
    if isinstance(v, BStr) and len(v) == 1:
        c = v.chars[0]
        return c if isinstance(c, int) else sym.sint(c)
    if isinstance(v, SV) and v.kind == "str":
        if not interp.ctx.branch(z3.Length(v.t) == 1, "ord: len 1"):
            raise PyRaise("TypeError", "ord() expected a character")
        return sym.sint(z3.StrToCode(v.t))
    raise Unsupported("ord")


def _b_chr(interp, args, kwargs):
    v = mk(args[0])
    if isinstance(v, int):
        return chr(v)
    t = zint(v)
    if not interp.ctx.branch(z3.And(t >= 0, t <= 0x10FFFF), "chr in range"):
        raise PyRaise("ValueError", "chr() arg not in range")
    return BStr([t])


def _b_all_any(is_all):
    def run(interp, args, kwargs):
        (v,) = args
        items = interp.iterate(v)
        if interp.spec_mode:
            ts = [sym.truth_term(interp.ctx, x) for x in items]
            if any(isinstance(t, bool) and t != is_all for t in ts):
                return not is_all
            ts = [t for t in ts if not isinstance(t, bool)]
            if not ts:
                return is_all
            return sym.sbool(z3.And(*ts) if is_all else z3.Or(*ts))
        for i, x in enumerate(items):
            if interp.truth(x, f"{'all' if is_all else 'any'}[{i}]") != is_all:
                return not is_all
        return is_all

    return run


def _b_isinstance(interp, args, kwargs):
    v, cls = args
    from .interp import NativeRef

    if isinstance(cls, NativeRef):
        cls = cls.obj
    if isinstance(cls, tuple):
        cls = tuple(c.obj if isinstance(c, NativeRef) else c for c in cls)
    v = mk(v)
    if isinstance(v, SOpt):
        v = sym.force(interp.ctx, v)
    if is_concrete(v):
        return isinstance(v, cls)
    clss = cls if isinstance(cls, tuple) else (cls,)
    if sym.is_strlike(v):
        return str in clss
    if sym.is_intlike(v):
        return int in clss
    if sym.is_boollike(v):
        return bool in clss or int in clss
    if isinstance(v, (SList, list)):
        return list in clss
    if isinstance(v, SEnum):
        return any(issubclass(v.cls, c) for c in clss)
    if isinstance(v, Rec):
        if v.cls is not None:
            return issubclass(v.cls, clss)
        return any(c.__name__ == v.cls_name for c in clss)
    if isinstance(v, SDate):
        return dt.date in clss
    raise Unsupported(f"isinstance on {type(v).__name__}")


def _b_sorted(interp, args, kwargs):
    v = args[0]
    items = interp.iterate(v)
    key = kwargs.get("key")
    if key is not None or kwargs.get("reverse"):
        raise Unsupported("sorted with key on symbolic items")
    # small symbolic sort: insertion by forking comparisons
    out: list = []
    for x in items:
        pos = len(out)
        for i, y in enumerate(out):
            t = sym.lt_term(interp.ctx, x, y, "Lt")
            if interp.ctx.branch(z3.BoolVal(t) if isinstance(t, bool) else t, "sorted<"):
                pos = i
                break
        out.insert(pos, x)
    return out


def _b_list(interp, args, kwargs):
    if not args:
        return []
    v = args[0]
    if isinstance(v, SList) and builtins.getattr(interp, "list_bound", None) is None:
        return v.copy()
    return list(interp.iterate(v))


def _b_tuple(interp, args, kwargs):
    if not args:
        return ()
    return tuple(interp.iterate(args[0]))


def _b_set(interp, args, kwargs):
    from .interp import _SymSet

    if not args:
        return set()
    items = interp.iterate(args[0])
    if is_concrete(items):
        return set(items)
    return _SymSet(items)


def _b_dict(interp, args, kwargs):
    if not args:
        return dict(kwargs)
    v = args[0]
    if isinstance(v, dict):
        d = dict(v)
        d.update(kwargs)
        return d
    if isinstance(v, SMap):
        return v.copy()
    d = {}
    for pair in interp.iterate(v):
        k, x = interp.iterate(pair)
        d[k] = x
    return d


def _b_enumerate(interp, args, kwargs):
    start = kwargs.get("start", args[1] if len(args) > 1 else 0)
    return [(start + i, x) for i, x in enumerate(interp.iterate(args[0]))]


def _b_zip(interp, args, kwargs):
    return [tuple(t) for t in zip(*[interp.iterate(a) for a in args])]


def _b_range(interp, args, kwargs):
    if is_concrete(args):
        return range(*args)
    raise Unsupported("range with symbolic bound (needs an invariant-based loop)")


def _b_minmax(is_min):
    def run(interp, args, kwargs):
        items = list(args) if len(args) > 1 else interp.iterate(args[0])
        if not items:
            raise PyRaise("ValueError", "empty sequence")
        acc = items[0]
        for x in items[1:]:
            t = sym.lt_term(interp.ctx, x, acc, "Lt" if is_min else "Gt")
            if isinstance(t, bool):
                acc = x if t else acc
            else:
                from .interp import _ite

                acc = _ite(interp.ctx, t, x, acc)
        return acc

    return run


def _b_sum(interp, args, kwargs):
    acc = args[1] if len(args) > 1 else 0
    for x in interp.iterate(args[0]):
        acc = sym.binop(interp.ctx, "Add", acc, x)
    return acc


def _b_reversed(interp, args, kwargs):
    return list(reversed(interp.iterate(args[0])))


def _b_repr(interp, args, kwargs):
    raise Unsupported("repr of symbolic value")


def _b_print(interp, args, kwargs):
    g = interp.ctx.ghost.setdefault("stdout", [])
    g.append((tuple(args), dict(kwargs)))
    return None


def _b_getattr(interp, args, kwargs):
    obj, name = args[0], mk(args[1])
    if not isinstance(name, str):
        raise Unsupported("getattr with a symbolic attribute name")
    try:
        return interp.getattr(obj, name)
    except PyRaise as e:
        if e.etype == "AttributeError" and len(args) > 2:
            return args[2]
        raise


BUILTIN_MODELS = {
    "getattr": _b_getattr,
    "len": _b_len, "str": _b_str, "int": _b_int, "bool": _b_bool, "abs": _b_abs, "ord": _b_ord, "chr": _b_chr,
    "all": _b_all_any(True), "any": _b_all_any(False), "isinstance": _b_isinstance, "sorted": _b_sorted,
    "list": _b_list, "tuple": _b_tuple, "set": _b_set, "dict": _b_dict, "enumerate": _b_enumerate,
    "zip": _b_zip, "range": _b_range, "min": _b_minmax(True), "max": _b_minmax(False), "sum": _b_sum,
    "reversed": _b_reversed, "repr": _b_repr, "print": _b_print,
}

NATIVE_MODELS: dict[str, Any] = {}
NATIVE_MODELS_BY_ID: dict[Any, Any] = {}


def native_model(key):
    def deco(f):
        NATIVE_MODELS[key] = f
        return f

    return deco


@native_model("tqdm.std.tqdm")
def _m_tqdm(interp, args, kwargs):
    interp.used_models.add("tqdm(iterable, ...): a progress bar; iterating it yields the items of the iterable in order")
    return args[0]


@native_model("zorg.service.templates.ZorgTemplateManager")
def _m_template_manager(interp, args, kwargs):
    from zorg.service.templates import ZorgTemplateManager

    interp.used_models.add("ZorgTemplateManager(zdir): construction has no effect on the notes directory (it only prepares a temp dir for jinja)")
    return Rec("ZorgTemplateManager", {"_zdir": args[0]}, cls=ZorgTemplateManager)


@native_model("pathlib.Path")
def _m_Path(interp, args, kwargs):
    (a,) = args
    if isinstance(a, Rec) and a.cls_name == "Path":
        return a
    if is_concrete(a):
        import pathlib

        return mk_path(str(pathlib.PurePosixPath(a)))
    interp.used_models.add("pathlib: Path(s) is identified with the string s (already-normalised relative or absolute POSIX path)")
    return mk_path(a)


# ---------------------------------------------------------------------------------------
# methods
# ---------------------------------------------------------------------------------------
def call_method(interp, obj, name, args, kwargs):
    ctx = interp.ctx
    if isinstance(obj, (str, BStr)) or (isinstance(obj, SV) and obj.kind == "str"):
        return str_method(interp, obj, name, args, kwargs)
    if isinstance(obj, list):
        return list_method(interp, obj, name, args, kwargs)
    if isinstance(obj, SList):
        return slist_method(interp, obj, name, args, kwargs)
    if isinstance(obj, sym.PList):
        if name == "append":
            obj.tail.append(args[0])
            return None
        raise Unsupported(f"list.{name} on an object list with unknown prefix")
    if isinstance(obj, dict):
        return dict_method(interp, obj, name, args, kwargs)
    if isinstance(obj, SMap):
        return smap_method(interp, obj, name, args, kwargs)
    if isinstance(obj, SDate):
        return date_method(interp, obj, name, args, kwargs)
    if isinstance(obj, Rec) and obj.cls_name == "Path":
        return path_method(interp, obj, name, args, kwargs)
    if isinstance(obj, _FileHandle):
        return file_method(interp, obj, name, args, kwargs)
    if is_concrete(obj):
        import pathlib

        if isinstance(obj, pathlib.PurePath) and name in _IMPURE_PATH_METHODS:
            return path_method(interp, mk_path(str(obj)), name, args, kwargs)
        if isinstance(obj, (dt.date, dt.datetime)) and not (is_concrete(args) and is_concrete(kwargs)):
            raise Unsupported(f"date.{name} with symbolic arguments")
        if is_concrete(args) and is_concrete(kwargs):
            try:
                return builtins.getattr(obj, name)(*args, **kwargs)
            except Exception as e:
                raise PyRaise(type(e).__name__, str(e))
        if isinstance(obj, tuple) and name in ("index", "count"):
            raise Unsupported(f"tuple.{name} with symbolic argument")
    raise Unsupported(f"method {type(obj).__name__}.{name}")


def _key(t) -> str:
    from .ctx import _term_key

    return _term_key(z3.simplify(t))


def _bstr_find(ctx, chars, sep: str, start: int) -> int:
    """First index >= start where the concrete `sep` occurs in the bounded string (forks per position)."""
    iv = lambda c: z3.IntVal(c) if isinstance(c, int) else c
    for i in range(start, len(chars) - len(sep) + 1):
        t = z3.And(*[iv(chars[i + j]) == ord(sep[j]) for j in range(len(sep))])
        if ctx.branch(t, f"find@{i}"):
            return i
    return -1


def _as_bstr_chars(v):
    if isinstance(v, BStr):
        return v.chars
    if isinstance(v, str):
        return [ord(c) for c in v]
    return None


def str_method(interp, s, name, args, kwargs):
    ctx = interp.ctx
    s = mk(s)
    args = [mk(a) for a in args]
    if isinstance(s, str) and is_concrete(args) and is_concrete(kwargs):
        try:
            return builtins.getattr(s, name)(*args, **kwargs)
        except Exception as e:
            raise PyRaise(type(e).__name__, str(e))
    chars = _as_bstr_chars(s)
    iv = lambda c: z3.IntVal(c) if isinstance(c, int) else c
    if chars is not None and name in ("find", "index", "partition", "rpartition", "split", "count", "rfind") and args and isinstance(mk(args[0]), str) and mk(args[0]):
        sep = mk(args[0])
        if name in ("find", "index", "partition"):
            i = _bstr_find(ctx, chars, sep, 0)
            if name == "find":
                return i
            if name == "index":
                if i < 0:
                    raise PyRaise("ValueError", "substring not found")
                return i
            if i < 0:
                return (mk(BStr(chars)), "", "")
            return (mk(BStr(chars[:i])), sep, mk(BStr(chars[i + len(sep):])))
        if name in ("rfind", "rpartition"):
            last = -1
            pos = 0
            while True:
                i = _bstr_find(ctx, chars, sep, pos)
                if i < 0:
                    break
                last, pos = i, i + 1
            if name == "rfind":
                return last
            if last < 0:
                return ("", "", mk(BStr(chars)))
            return (mk(BStr(chars[:last])), sep, mk(BStr(chars[last + len(sep):])))
        if name in ("split", "count"):
            if len(args) > 1:
                raise Unsupported("split with maxsplit on symbolic string")
            parts, pos, n = [], 0, 0
            while True:
                i = _bstr_find(ctx, chars, sep, pos)
                if i < 0:
                    parts.append(mk(BStr(chars[pos:])))
                    break
                parts.append(mk(BStr(chars[pos:i])))
                pos = i + len(sep)
                n += 1
            return parts if name == "split" else n
    if name in ("startswith", "endswith"):
        (p,) = args[:1]
        if len(args) > 1:
            raise Unsupported("startswith with offsets")
        ps = list(p) if isinstance(p, tuple) else [p]
        terms = []
        for q in ps:
            q = mk(q)
            qc = _as_bstr_chars(q)
            if chars is not None and qc is not None:
                if len(qc) > len(chars):
                    terms.append(False)
                    continue
                seg = chars[: len(qc)] if name == "startswith" else chars[len(chars) - len(qc):]
                terms.append(sym._str_eq(mk(BStr(seg)), q))
            else:
                terms.append(z3.PrefixOf(zstr(q), zstr(s)) if name == "startswith" else z3.SuffixOf(zstr(q), zstr(s)))
        if any(t is True for t in terms):
            return True
        terms = [t for t in terms if t is not False]
        if not terms:
            return False
        return sym.sbool(z3.Or(*terms) if len(terms) > 1 else terms[0])
    if name in ("isdigit", "isnumeric", "isdecimal"):
        if chars is not None:
            if not chars:
                return False
            return sym.sbool(z3.And(*[z3.And(iv(c) >= 48, iv(c) <= 57) for c in chars]))
        interp.used_models.add("str.isdigit: ASCII digits only (input domain is ASCII)")
        return sym.sbool(z3.InRe(zstr(s), z3.Plus(DIGIT)))
    if name in ("lower", "upper"):
        lo, hi, d = (65, 90, 32) if name == "lower" else (97, 122, -32)
        if chars is not None:
            return mk(BStr([z3.simplify(z3.If(z3.And(iv(c) >= lo, iv(c) <= hi), iv(c) + d, iv(c))) for c in chars]))
        n = interp._pinned_length(s) if isinstance(s, SV) else None
        if n is not None:
            return str_method(interp, sym.coerce_to_bstr(ctx, s, n, n), name, args, kwargs)
        f = sym.ufun("str_" + name, z3.StringSort(), z3.StringSort())
        r = f(zstr(s))
        ctx.assume(z3.Length(r) == z3.Length(zstr(s)))
        ctx.taint(f"str.{name} on an unbounded symbolic string is uninterpreted")  # a counter-model here proves nothing
        interp.used_models.add(f"str.{name}: uninterpreted, length-preserving (ASCII)")
        return sym.sstr(r)
    if name in ("strip", "lstrip", "rstrip") and args:
        # strip(chars) with a concrete character set: s = a ++ r ++ b with a, b over the set and r not starting / ending in it
        cs = mk(args[0])
        if not (isinstance(cs, str) and cs and len(args) == 1) or chars is not None:
            raise Unsupported("strip(chars) with a symbolic character set or on a bounded string")
        zs = zstr(s)
        tag = name + "_" + "".join(f"{ord(c):02x}" for c in sorted(set(cs)))
        a = sym.ufun("str_" + tag + "_left", z3.StringSort(), z3.StringSort())(zs)
        b = sym.ufun("str_" + tag + "_right", z3.StringSort(), z3.StringSort())(zs)
        r = sym.ufun("str_" + tag, z3.StringSort(), z3.StringSort())(zs)
        SET = z3.Union(*[z3.Re(z3.StringVal(c)) for c in sorted(set(cs))]) if len(set(cs)) > 1 else z3.Re(z3.StringVal(cs[0]))
        ctx.assume(zs == z3.Concat(a, r, b))
        if name in ("strip", "lstrip"):
            ctx.assume(z3.InRe(a, z3.Star(SET)))
            ctx.assume(z3.Or(r == z3.StringVal(""), z3.Not(z3.InRe(z3.SubString(r, 0, 1), SET))))
        else:
            ctx.assume(a == z3.StringVal(""))
        if name in ("strip", "rstrip"):
            ctx.assume(z3.InRe(b, z3.Star(SET)))
            ctx.assume(z3.Or(r == z3.StringVal(""), z3.Not(z3.InRe(z3.SubString(r, z3.Length(r) - 1, 1), SET))))
            if name == "strip":
                ctx.assume(z3.Implies(r == z3.StringVal(""), b == z3.StringVal("")))
        else:
            ctx.assume(b == z3.StringVal(""))
        interp.used_models.add("str.strip/lstrip/rstrip(chars): decomposition s = set* ++ r ++ set* for a concrete character set")
        return sym.sstr(r)
    if name in ("strip", "lstrip", "rstrip"):
        if chars is not None:
            lo, hi = 0, len(chars)
            if name in ("strip", "lstrip"):
                while lo < hi and ctx.branch(_is_ws_code(iv(chars[lo])), "lstrip ws"):
                    lo += 1
            if name in ("strip", "rstrip"):
                while hi > lo and ctx.branch(_is_ws_code(iv(chars[hi - 1])), "rstrip ws"):
                    hi -= 1
            return mk(BStr(chars[lo:hi]))
        zs = zstr(s)
        # the result is a function of s (same term for repeated calls); a, b are the stripped margins
        a = sym.ufun("str_" + name + "_left", z3.StringSort(), z3.StringSort())(zs)
        b = sym.ufun("str_" + name + "_right", z3.StringSort(), z3.StringSort())(zs)
        r = sym.ufun("str_" + name, z3.StringSort(), z3.StringSort())(zs)
        ctx.assume(zs == z3.Concat(a, r, b))
        ws_star = z3.Star(WS)
        if name in ("strip", "lstrip"):
            ctx.assume(z3.InRe(a, ws_star))
            ctx.assume(z3.Or(r == z3.StringVal(""), z3.Not(z3.InRe(z3.SubString(r, 0, 1), WS))))
        else:
            ctx.assume(a == z3.StringVal(""))
        if name in ("strip", "rstrip"):
            ctx.assume(z3.InRe(b, ws_star))
            ctx.assume(z3.Or(r == z3.StringVal(""), z3.Not(z3.InRe(z3.SubString(r, z3.Length(r) - 1, 1), WS))))
            if name == "strip":
                # canonical split when r is empty
                ctx.assume(z3.Implies(r == z3.StringVal(""), b == z3.StringVal("")))
        else:
            ctx.assume(b == z3.StringVal(""))
        interp.used_models.add("str.strip/lstrip/rstrip(): ASCII whitespace decomposition s = ws* ++ r ++ ws*")
        return sym.sstr(r)
    if name == "join":
        items = interp.iterate(args[0])
        r: Any = ""
        for i, x in enumerate(items):
            if not sym.is_strlike(mk(x)):
                raise PyRaise("TypeError", "sequence item: expected str")
            if i:
                r = sym.str_concat(r, s)
            r = sym.str_concat(r, x)
        if isinstance(s, str) and s and items and isinstance(mk(r), SV):
            # remember how this text was assembled: split(sep) of it returns the parts when none contains sep
            ctx.ghost.setdefault("joined", {})[_key(zstr(r))] = (s, list(items))
        return r
    if name == "find" and chars is None:
        return sym.sint(z3.IndexOf(zstr(s), zstr(args[0]), 0))
    if name == "removeprefix":
        p = zstr(args[0])
        zs = zstr(s)
        return sym.sstr(z3.If(z3.PrefixOf(p, zs), z3.SubString(zs, z3.Length(p), z3.Length(zs) - z3.Length(p)), zs))
    if name == "split" and chars is None:
        if args and isinstance(mk(args[0]), str) and len(args) == 1:
            j = ctx.ghost.get("joined", {}).get(_key(zstr(s)))
            if j is not None and j[0] == mk(args[0]):
                sep, parts = j
                if all(ctx.must(z3.Not(z3.Contains(zstr(p_), z3.StringVal(sep)))) for p_ in parts):
                    interp.used_models.add("str.split(sep) of sep.join(parts) is parts when no part contains sep")
                    return list(parts)
        return split_model(interp, s, args, kwargs)
    if name == "replace" and chars is not None and len(args) == 2 and isinstance(args[0], str) and len(args[0]) == 1 and isinstance(args[1], str):
        # bounded string, one concrete character replaced by a concrete text: case split per position
        out = []
        for c in chars:
            if isinstance(c, int):
                hit = c == ord(args[0])
            else:
                hit = ctx.branch(c == ord(args[0]), f"char is {args[0]!r}")
            out.extend([ord(x) for x in args[1]] if hit else [c])
        return mk(BStr(out))
    if name == "replace":
        raise Unsupported("str.replace on symbolic string (replace_all)")
    if name == "format":
        # assumed builtin: str.format is a function of the template and the argument values
        if args:
            raise Unsupported("str.format with positional arguments on a symbolic template")
        terms, sig = [], []
        for k in sorted(kwargs):
            v = kwargs[k]
            items = interp.iterate(v) if isinstance(v, (list, tuple, SList)) else [v]
            sig.append(f"{k}{len(items)}")
            for x in items:
                x = mk(x)
                if sym.is_strlike(x):
                    terms.append(zstr(x))
                elif isinstance(x, SDate):
                    terms.append(x.t)
                elif sym.is_intlike(x):
                    terms.append(zint(x))
                else:
                    raise Unsupported("str.format argument type")
        f = sym.ufun("str_format_" + "_".join(sig), z3.StringSort(), *[t.sort() for t in terms], z3.StringSort())
        interp.used_models.add("str.format: uninterpreted function of the template and the keyword argument values")
        return sym.sstr(f(zstr(s), *terms))
    raise Unsupported(f"str.{name} on symbolic string")


def split_model(interp, s, args, kwargs):
    """s.split(sep) with a constant non-empty sep: an uninterpreted list with the facts callers use:
    at least one part; part 0 is the text before the first separator (or s when there is none);
    exactly one part iff the separator does not occur."""
    ctx = interp.ctx
    if not args or kwargs or not isinstance(mk(args[0]), str) or not mk(args[0]):
        raise Unsupported("str.split() without a constant separator on an unbounded symbolic string")
    sep = mk(args[0])
    zs = zstr(s)
    lty = sym.TListVal(sym.TStr())
    uf = sym.ufun("str_split_" + "_".join(str(ord(c)) for c in sep), z3.StringSort(), lty.sort())
    t = uf(zs)
    S = lty.sort()
    idx = z3.IndexOf(zs, z3.StringVal(sep), 0)
    ctx.assume(S.len(t) >= 1)
    ctx.assume(z3.Select(S.arr(t), 0) == z3.If(idx < 0, zs, z3.SubString(zs, 0, idx)))
    ctx.assume((S.len(t) == 1) == (idx < 0))
    # second part: the text between the first and the second separator (or everything after the first one); two parts iff sep occurs once
    zsep = z3.StringVal(sep)
    rest = z3.SubString(zs, idx + len(sep), z3.Length(zs) - idx - len(sep))
    idx2 = z3.IndexOf(rest, zsep, 0)
    ctx.assume(z3.Implies(idx >= 0, z3.Select(S.arr(t), 1) == z3.If(idx2 < 0, rest, z3.SubString(rest, 0, idx2))))
    ctx.assume(z3.Implies(idx >= 0, (S.len(t) == 2) == (idx2 < 0)))
    interp.used_models.add("str.split(sep): uninterpreted list with len>=1, parts[0] = text before the first sep, len==1 iff sep absent")
    return lty.wrap(t)


def list_method(interp, lst: list, name, args, kwargs):
    ctx = interp.ctx
    if name == "append":
        lst.append(args[0])
        return None
    if name == "extend":
        v = args[0]
        lst.extend(interp.iterate(v))
        return None
    if name == "pop":
        if not lst:
            raise PyRaise("IndexError", "pop from empty list")
        if not args:
            return lst.pop()
        i = mk(args[0])
        if isinstance(i, int):
            try:
                return lst.pop(i)
            except IndexError as e:
                raise PyRaise("IndexError", str(e))
        raise Unsupported("pop(symbolic index)")
    if name == "insert":
        i = mk(args[0])
        if isinstance(i, int):
            lst.insert(i, args[1])
            return None
        raise Unsupported("insert(symbolic index)")
    if name == "copy":
        return list(lst)
    if name == "clear":
        lst.clear()
        return None
    if name == "reverse":
        lst.reverse()
        return None
    if name == "index":
        for i, x in enumerate(lst):
            t = sym.eq_term(ctx, x, args[0])
            if ctx.branch(z3.BoolVal(t) if isinstance(t, bool) else t, f"index=={i}"):
                return i
        raise PyRaise("ValueError", "not in list")
    if name == "count":
        acc = 0
        for x in lst:
            t = sym.eq_term(ctx, x, args[0])
            acc = sym.binop(ctx, "Add", acc, 1 if t is True else 0 if t is False else sym.sint(z3.If(t, 1, 0)))
        return acc
    if name == "sort":
        if kwargs:
            raise Unsupported("list.sort(key=)")
        lst[:] = _b_sorted(interp, [list(lst)], {})
        return None
    if name == "remove":
        for i, x in enumerate(lst):
            t = sym.eq_term(ctx, x, args[0])
            if ctx.branch(z3.BoolVal(t) if isinstance(t, bool) else t, f"remove=={i}"):
                del lst[i]
                return None
        raise PyRaise("ValueError", "list.remove(x): x not in list")
    raise Unsupported(f"list.{name}")


def slist_method(interp, lst: SList, name, args, kwargs):
    ctx = interp.ctx
    n = zint(lst.length)
    if name == "append":
        lst.arr = z3.Store(lst.arr, n, lst.ety.unwrap(ctx, args[0]))
        lst.length = sym.sint(n + 1)
        return None
    if name == "extend":
        other = args[0]
        if isinstance(other, Rec):
            raise Unsupported("extend by object")
        r = sym.slist_concat(ctx, lst, other if isinstance(other, SList) else list(interp.iterate(other)))
        lst.length, lst.arr = r.length, r.arr
        return None
    if name == "pop":
        if not ctx.branch(n > 0, "pop: non-empty"):
            raise PyRaise("IndexError", "pop from empty list")
        if not args:
            v = sym.mk_elem(lst.ety, z3.Select(lst.arr, n - 1))
            lst.length = sym.sint(n - 1)
            return v
        i = mk(args[0])
        if i == 0:
            v = sym.mk_elem(lst.ety, z3.Select(lst.arr, 0))
            j = z3.Int(ctx.fresh_name("popi"))
            lst.arr = z3.Lambda([j], z3.Select(lst.arr, j + 1))
            lst.length = sym.sint(n - 1)
            return v
        raise Unsupported("SList.pop(i) for i != 0")
    if name == "copy":
        return lst.copy()
    if name == "insert" and mk(args[0]) == 0:
        j = z3.Int(ctx.fresh_name("insi"))
        x = lst.ety.unwrap(ctx, args[1])
        lst.arr = z3.Lambda([j], z3.If(j == 0, x, z3.Select(lst.arr, j - 1)))
        lst.length = sym.sint(n + 1)
        return None
    raise Unsupported(f"list.{name} on a symbolic-length list")


def dict_method(interp, d: dict, name, args, kwargs):
    ctx = interp.ctx
    from .interp import _DictView

    if name == "get":
        k = mk(args[0])
        default = args[1] if len(args) > 1 else None
        if is_concrete(k):
            try:
                if k in d:
                    return d[k]
            except TypeError:
                raise PyRaise("TypeError", "unhashable")
            if is_concrete(list(d.keys())):
                return default
        for kk in d:
            kv = kk.v if type(kk).__name__ == "_SymKey" else kk
            t = sym.eq_term(ctx, k, kv)
            if ctx.branch(z3.BoolVal(t) if isinstance(t, bool) else t, f"get key=={kv!r}"):
                return d[kk]
        return default
    if name == "items":
        return _DictView([(k.v if type(k).__name__ == "_SymKey" else k, v) for k, v in d.items()])
    if name == "keys":
        return _KeyList(k.v if type(k).__name__ == "_SymKey" else k for k in d.keys())
    if name == "values":
        return list(d.values())
    if name == "copy":
        return dict(d)
    if name == "update":
        if args:
            o = args[0]
            if not isinstance(o, dict):
                raise Unsupported("dict.update(non-dict)")
            d.update(o)
        d.update(kwargs)
        return None
    if name == "setdefault":
        k = mk(args[0])
        if is_concrete(k) and is_concrete(list(d.keys())):
            return d.setdefault(k, args[1] if len(args) > 1 else None)
        raise Unsupported("setdefault with symbolic key")
    if name == "pop":
        k = mk(args[0])
        if is_concrete(k) and is_concrete(list(d.keys())):
            if k in d:
                return d.pop(k)
            if len(args) > 1:
                return args[1]
            raise PyRaise("KeyError", repr(k))
        raise Unsupported("dict.pop with symbolic key")
    raise Unsupported(f"dict.{name}")


def smap_method(interp, m: SMap, name, args, kwargs):
    ctx = interp.ctx
    if name == "get":
        k = m.kty.unwrap(ctx, args[0])
        default = args[1] if len(args) > 1 else None
        if ctx.branch(z3.Select(m.has, k), "map.get: present"):
            return sym.mk_elem(m.vty, z3.Select(m.val, k), ctx)
        return default
    if name == "copy":
        return m.copy()
    if name == "keys":
        return m  # only membership is meaningful on an unbounded key set (`k in m.keys()` == `k in m`)
    if name == "update" and len(args) == 1 and not kwargs:
        o = args[0]
        if isinstance(o, dict):
            o = sym.dict_to_smap(ctx, o, m.kty, m.vty)
        if isinstance(o, SMap):
            # in place: keys of the argument win
            m.has, m.val = sym.binop(ctx, "BitOr", m.copy(), o).has, sym.binop(ctx, "BitOr", m.copy(), o).val
            return None
    raise Unsupported(f"dict.{name} on symbolic map")


def date_method(interp, d: SDate, name, args, kwargs):
    if name == "strftime":
        fmt = args[0]
        if fmt == "%Y%m%d":
            return ymd_of(interp, d)
        raise Unsupported(f"strftime({fmt!r})")
    if name == "date":
        return d
    raise Unsupported(f"date.{name}")


# ---------------------------------------------------------------------------------------
# file system (A-FS): ghost map path -> (exists, content)
# ---------------------------------------------------------------------------------------
def fs_state(interp):
    g = interp.ctx.ghost
    if "fs_exists" not in g:
        g["fs_exists"] = z3.Array("fs_exists0", z3.StringSort(), z3.BoolSort())
        g["fs_content"] = z3.Array("fs_content0", z3.StringSort(), z3.StringSort())
        g["fs_writes"] = []  # ordered log of (op, path term, content term)
    return g


def path_method(interp, p: Rec, name, args, kwargs):
    ctx = interp.ctx
    g = fs_state(interp)
    ps = zstr(p.fields["s"])
    interp.used_models.add("A-FS: Path.exists/read_text/write_text/open/mkdir/rename behave as a map path -> contents (no concurrent writer)")
    if name == "exists":
        return sym.sbool(z3.Select(g["fs_exists"], ps))
    if name in ("read_text", "read_bytes"):  # bytes and text are not distinguished (A-ASCII)
        if not ctx.branch(z3.Select(g["fs_exists"], ps), "read_text: exists"):
            raise PyRaise("FileNotFoundError", "read_text")
        return sym.sstr(z3.Select(g["fs_content"], ps))
    if name == "write_text":
        c = zstr(args[0])
        g["fs_exists"] = z3.Store(g["fs_exists"], ps, True)
        g["fs_content"] = z3.Store(g["fs_content"], ps, c)
        g["fs_writes"].append(("write", ps, c))
        return sym.sint(z3.Length(c))
    if name == "open":
        mode = args[0] if args else kwargs.get("mode", "r")
        if mode == "w":
            g["fs_exists"] = z3.Store(g["fs_exists"], ps, True)
            g["fs_content"] = z3.Store(g["fs_content"], ps, z3.StringVal(""))
            g["fs_writes"].append(("truncate", ps, z3.StringVal("")))
        elif mode == "r":
            if not ctx.branch(z3.Select(g["fs_exists"], ps), "open: exists"):
                raise PyRaise("FileNotFoundError", "open")
        else:
            raise Unsupported(f"open mode {mode!r}")
        return _FileHandle(p, mode)
    if name == "mkdir":
        g["fs_writes"].append(("mkdir", ps, None))
        return None
    if name == "touch":
        ex = z3.Select(g["fs_exists"], ps)
        g["fs_content"] = z3.Store(g["fs_content"], ps, z3.If(ex, z3.Select(g["fs_content"], ps), z3.StringVal("")))
        g["fs_exists"] = z3.Store(g["fs_exists"], ps, True)
        g["fs_writes"].append(("touch", ps, None))
        return None
    if name == "with_suffix" or name == "relative_to":
        raise Unsupported(f"Path.{name} on symbolic path")
    raise Unsupported(f"Path.{name}")


def file_method(interp, fh: _FileHandle, name, args, kwargs):
    g = fs_state(interp)
    ps = zstr(fh.path.fields["s"])
    if name == "write" and fh.mode == "w":
        cur = z3.Select(g["fs_content"], ps)
        new = z3.Concat(cur, zstr(args[0]))
        g["fs_content"] = z3.Store(g["fs_content"], ps, new)
        g["fs_writes"].append(("write", ps, new))
        return None
    if name == "read" and fh.mode == "r":
        return sym.sstr(z3.Select(g["fs_content"], ps))
    raise Unsupported(f"file.{name} in mode {fh.mode}")


# ---------------------------------------------------------------------------------------
# json (A-FS codec): encode/decode are uninterpreted with decode(encode(m)) == m
# ---------------------------------------------------------------------------------------
def _json_ufs():
    A = z3.ArraySort(z3.StringSort(), z3.BoolSort())
    B = z3.ArraySort(z3.StringSort(), z3.StringSort())
    return (
        sym.ufun("json_dec_has", z3.StringSort(), A),
        sym.ufun("json_dec_val", z3.StringSort(), B),
        sym.ufun("json_enc", A, B, z3.StringSort()),
    )


class _KeyList(list):
    """dict.keys() of a dict with (possibly symbolic) keys: supports `in`, iteration and `-` (set difference)"""


def keys_difference(interp, a, b):
    out = _KeyList()
    for x in a:
        t = sym.contains_term(interp.ctx, x, list(b))
        if t is True:
            continue
        if t is False or not interp.ctx.branch(t, "key also in the other map"):
            out.append(x)
    return out


def json_decode(interp, s):
    dh, dv, _ = _json_ufs()
    zs = zstr(s)
    known = interp.ctx.ghost.get("json_known", {})
    if _key(zs) in known:
        # the prelude installed this text as the encoding of a map with a known (bounded) key set: decode to that map
        interp.used_models.add("json: loads/dump are an uninterpreted codec with loads(dump(m)) == m; the file holds a str->str object")
        return dict(known[_key(zs)])
    interp.used_models.add("json: loads/dump are an uninterpreted codec with loads(dump(m)) == m; the file holds a str->str object")
    return SMap(dh(zs), dv(zs), sym.TStr(), sym.TStr())


def json_encode(interp, m):
    dh, dv, enc = _json_ufs()
    if isinstance(m, dict):
        m = sym.dict_to_smap(interp.ctx, m, sym.TStr(), sym.TStr())
    if not isinstance(m, SMap):
        raise Unsupported("json.dump of non-map")
    e = enc(m.has, m.val)
    interp.ctx.assume(z3.And(dh(e) == m.has, dv(e) == m.val))
    interp.used_models.add("json: loads/dump are an uninterpreted codec with loads(dump(m)) == m; the file holds a str->str object")
    return sym.sstr(e)


@native_model("json.loads")
def _m_json_loads(interp, args, kwargs):
    if is_concrete(args):
        import json

        return json.loads(args[0])
    return json_decode(interp, args[0])


@native_model("json.dump")
def _m_json_dump(interp, args, kwargs):
    obj, fh = args[0], args[1]
    return file_method(interp, fh, "write", [json_encode(interp, obj)], {})


@native_model("json.dumps")
def _m_json_dumps(interp, args, kwargs):
    if is_concrete(args):
        import json

        return json.dumps(*args, **kwargs)
    return json_encode(interp, args[0])
