"""Symbolic values of pyvc and the operations Python code performs on them.

Encoding (see DESIGN.md 2.3):
  int            -> SV(Int)            exact (Python ints are unbounded)
  bool           -> SV(Bool)
  str, unbounded -> SV(String)         z3 sequence of characters
  str, bounded   -> BStr([code, ...])  concrete length, symbolic code points (character arithmetic)
  Enum member    -> SEnum(Int index)   members compared by identity
  Optional[T]    -> SOpt(is_none, T)
  list, symbolic length -> SList(len Int, Array Int->elem)
  list, concrete length -> python list of values
  dataclass / object    -> Rec(fields)  python object identity = aliasing
  datetime.date  -> SDate(Int)          proleptic day number, library functions uninterpreted
"""
from __future__ import annotations

import enum
import operator
from typing import Any, Callable, Optional

import z3

from .ctx import Abort, Ctx, Unsupported


# --------------------------------------------------------------------------------------
# values
# --------------------------------------------------------------------------------------
class SV:
    __slots__ = ("t", "kind")

    def __init__(self, t, kind: str):
        self.t = t
        self.kind = kind  # int | bool | str

    def __repr__(self):
        return f"SV<{self.kind}:{self.t}>"


class BStr:
    """String of concrete length whose characters are code points (int or z3 Int)."""

    __slots__ = ("chars", "origin")

    def __init__(self, chars, origin=None):
        self.chars = list(chars)
        self.origin = origin  # z3 String term this bounded string was coerced from (contract boundary)

    def __len__(self):
        return len(self.chars)

    def is_concrete(self):
        return all(isinstance(c, int) for c in self.chars)

    def to_py(self):
        return "".join(chr(c) for c in self.chars)

    def __repr__(self):
        return f"BStr<{self.chars}>"


class SEnum:
    __slots__ = ("t", "cls")

    def __init__(self, t, cls):
        self.t = t
        self.cls = cls

    def members(self):
        return list(self.cls)


class SOpt:
    __slots__ = ("isnone", "val")

    def __init__(self, isnone, val):
        self.isnone = isnone
        self.val = val


class SDate:
    __slots__ = ("t",)

    def __init__(self, t):
        self.t = t


class SList:
    """List of symbolic length. Mutable (python object identity = aliasing)."""

    def __init__(self, length, arr, ety, whole=None):
        self.length = length
        self.arr = arr
        self.ety = ety
        self._whole = (whole, arr) if whole is not None else None  # single SMT value this view was unpacked from

    @property
    def whole(self):
        if self._whole is not None and self._whole[1] is self.arr:
            return self._whole[0]
        return None

    def copy(self):
        r = SList(self.length, self.arr, self.ety)
        r._whole = self._whole
        return r


class SMap:
    """dict with symbolic key set: has: Array K Bool, val: Array K V."""

    def __init__(self, has, val, kty, vty, ident=None):
        self.has, self.val, self.kty, self.vty = has, val, kty, vty
        self.ident = ident  # (has, val, id term) while unmodified: lets UFs take the map by name

    def copy(self):
        return SMap(self.has, self.val, self.kty, self.vty, self.ident)

    def ident_term(self):
        if self.ident is not None and self.ident[0] is self.has and self.ident[1] is self.val:
            return self.ident[2]
        return None


class PList:
    """Append-only list of heap objects with an unknown (symbolic) prefix: prefix ++ tail."""

    def __init__(self, base, tail=None):
        self.base = base  # z3 constant of sort ObjList naming the unknown prefix (None = empty prefix)
        self.tail = list(tail or [])

    def copy(self):
        return PList(self.base, self.tail)


class Rec:
    """Heap object (dataclass instance, self, stub ctx...)."""

    def __init__(self, cls_name: str, fields: dict, cls=None):
        self.cls_name = cls_name
        self.fields = fields
        self.cls = cls

    def __repr__(self):
        return f"Rec<{self.cls_name}>"


class Opaque:
    """Value of an uninterpreted sort (only equality is known)."""

    def __init__(self, t, sortname):
        self.t = t
        self.sortname = sortname


_SORTS: dict[str, Any] = {}


def usort(name: str):
    if name not in _SORTS:
        _SORTS[name] = z3.DeclareSort(name)
    return _SORTS[name]


_UFS: dict[str, Any] = {}


def ufun(name: str, *sorts):
    key = name
    if key in _UFS:
        f = _UFS[key]
        if f.arity() == len(sorts) - 1 and all(f.domain(i) == sorts[i] for i in range(f.arity())) and f.range() == sorts[-1]:
            return f
        # same specification function applied to a differently represented argument (e.g. a map by name / by value)
        key = name + "@" + ",".join(str(x) for x in sorts)
        if key not in _UFS:
            _UFS[key] = z3.Function(key, *sorts)
        return _UFS[key]
    _UFS[key] = z3.Function(name, *sorts)
    return _UFS[key]


# --------------------------------------------------------------------------------------
# type descriptors (used for inputs, havoc, list elements)
# --------------------------------------------------------------------------------------
class Ty:
    def fresh(self, ctx: Ctx, name: str):
        raise NotImplementedError

    def sort(self):
        raise Unsupported(f"type {self!r} has no SMT sort")

    def wrap(self, term):
        raise Unsupported(f"type {self!r} cannot be wrapped")

    def unwrap(self, ctx, v):
        raise Unsupported(f"type {self!r} cannot be unwrapped")


class TInt(Ty):
    def __init__(self, lo=None, hi=None):
        self.lo, self.hi = lo, hi

    def fresh(self, ctx, name):
        t = ctx.fresh(name, z3.IntSort())
        if self.lo is not None:
            ctx.assume(t >= self.lo)
        if self.hi is not None:
            ctx.assume(t <= self.hi)
        return SV(t, "int")

    def sort(self):
        return z3.IntSort()

    def wrap(self, term):
        return SV(term, "int")

    def unwrap(self, ctx, v):
        return zint(v)


class TBool(Ty):
    def fresh(self, ctx, name):
        return SV(ctx.fresh(name, z3.BoolSort()), "bool")

    def sort(self):
        return z3.BoolSort()

    def wrap(self, term):
        return SV(term, "bool")

    def unwrap(self, ctx, v):
        return zbool(v)


class TStr(Ty):
    """Unbounded string; `ascii_only` adds the input-domain constraint of the page alphabet."""

    def __init__(self, regex=None):
        self.regex = regex

    def fresh(self, ctx, name):
        t = ctx.fresh(name, z3.StringSort())
        if self.regex is not None:
            ctx.assume(z3.InRe(t, self.regex))
        return SV(t, "str")

    def sort(self):
        return z3.StringSort()

    def wrap(self, term):
        return SV(term, "str")

    def unwrap(self, ctx, v):
        return zstr(v)


class TBStr(Ty):
    """Bounded string: the length is case-split at creation; chars are code points 0..0x10FFFF
    (restricted to `lo_code..hi_code`, default printable ASCII 0..127)."""

    def __init__(self, lo, hi, max_code=127):
        self.lo, self.hi, self.max_code = lo, hi, max_code

    def fresh(self, ctx, name):
        n = self.lo
        while n < self.hi:
            ln = ctx.fresh(name + ".lenis%d" % n, z3.BoolSort())
            if ctx.branch(ln, f"len({name})=={n}"):
                break
            n += 1
        chars = []
        for i in range(n):
            c = ctx.fresh(f"{name}[{i}]", z3.IntSort())
            ctx.assume(z3.And(c >= 0, c <= self.max_code))
            chars.append(c)
        return BStr(chars)


class TEnum(Ty):
    def __init__(self, cls):
        self.cls = cls

    def fresh(self, ctx, name):
        t = ctx.fresh(name, z3.IntSort())
        ctx.assume(z3.And(t >= 0, t < len(list(self.cls))))
        return SEnum(t, self.cls)

    def sort(self):
        return z3.IntSort()

    def wrap(self, term):
        return SEnum(term, self.cls)

    def unwrap(self, ctx, v):
        if isinstance(v, SEnum):
            return v.t
        return z3.IntVal(list(self.cls).index(v))


class TDate(Ty):
    def fresh(self, ctx, name):
        return SDate(ctx.fresh(name, z3.IntSort()))

    def sort(self):
        return z3.IntSort()

    def wrap(self, term):
        return SDate(term)

    def unwrap(self, ctx, v):
        if isinstance(v, SDate):
            return v.t
        raise Unsupported("concrete date in symbolic container")


class TOpt(Ty):
    def __init__(self, inner):
        self.inner = inner

    def fresh(self, ctx, name):
        return SOpt(ctx.fresh(name + ".isnone", z3.BoolSort()), self.inner.fresh(ctx, name))


class TList(Ty):
    def __init__(self, ety):
        self.ety = ety

    def fresh(self, ctx, name):
        ln = ctx.fresh(name + ".len", z3.IntSort())
        ctx.assume(ln >= 0)
        arr = ctx.fresh(name + ".arr", z3.ArraySort(z3.IntSort(), self.ety.sort()))
        return SList(SV(ln, "int"), arr, self.ety)


class TCList(Ty):
    """List whose length (lo..hi) is case-split at creation: python list of fresh elements."""

    def __init__(self, ety, lo, hi):
        self.ety, self.lo, self.hi = ety, lo, hi

    def fresh(self, ctx, name):
        n = self.lo
        while n < self.hi:
            b = ctx.fresh(name + ".lenis%d" % n, z3.BoolSort())
            if ctx.branch(b, f"len({name})=={n}"):
                break
            n += 1
        return [self.ety.fresh(ctx, f"{name}[{i}]") for i in range(n)]


class TMap(Ty):
    def __init__(self, kty, vty):
        self.kty, self.vty = kty, vty

    def fresh(self, ctx, name):
        has = ctx.fresh(name + ".has", z3.ArraySort(self.kty.sort(), z3.BoolSort()))
        val = ctx.fresh(name + ".val", z3.ArraySort(self.kty.sort(), self.vty.sort()))
        return SMap(has, val, self.kty, self.vty, (has, val, ctx.fresh(name + ".id", usort("MapId"))))


class TConst(Ty):
    def __init__(self, value):
        self.value = value

    def fresh(self, ctx, name):
        return self.value


class TRec(Ty):
    """Record with typed fields; `fields` maps name -> Ty; cls is the real class (optional)."""

    def __init__(self, cls_name, fields: dict, cls=None):
        self.cls_name, self.fields, self.cls = cls_name, fields, cls

    def fresh(self, ctx, name):
        return Rec(
            self.cls_name,
            {k: t.fresh(ctx, f"{name}.{k}") for k, t in self.fields.items()},
            cls=self.cls,
        )


_LISTS: dict[str, Any] = {}


def list_sort(ety):
    """Datatype (len, arr) used when a whole list must be a single SMT value (map values, UF arguments)."""
    key = str(ety.sort())
    if key not in _LISTS:
        d = z3.Datatype("ListS_" + key.replace(" ", "_"))
        d.declare("mk", ("len", z3.IntSort()), ("arr", z3.ArraySort(z3.IntSort(), ety.sort())))
        _LISTS[key] = d.create()
    return _LISTS[key]


def list_term(ctx, v, ety=None):
    """SMT value of a list (python list or SList)."""
    if isinstance(v, SList):
        ety = v.ety
        return list_sort(ety).mk(zint(v.length), v.arr)
    if isinstance(v, (list, tuple)):
        if ety is None:
            ety = infer_ety(v)
        arr = z3.K(z3.IntSort(), _default(ety))
        for i, x in enumerate(v):
            arr = z3.Store(arr, i, ety.unwrap(ctx, x))
        return list_sort(ety).mk(z3.IntVal(len(v)), arr)
    raise Unsupported(f"not a list: {type(v).__name__}")


def infer_ety(items):
    if all(is_strlike(mk(x)) for x in items):
        return TStr()
    if all(isinstance(x, Rec) and x.cls_name == "Path" for x in items) and items:
        return TPath()
    if all(is_intlike(mk(x)) for x in items):
        return TInt()
    raise Unsupported("cannot infer list element type")


class TListVal(Ty):
    """A list stored as one SMT value (for map values / UF results): wraps to an SList view."""

    def __init__(self, ety):
        self.ety = ety

    def sort(self):
        return list_sort(self.ety)

    def fresh(self, ctx, name):
        t = ctx.fresh(name, self.sort())
        ctx.assume(self.sort().len(t) >= 0)
        return self.wrap(t)

    def wrap(self, term):
        S = self.sort()
        return SList(sint(z3.simplify(S.len(term))), z3.simplify(S.arr(term)), self.ety, whole=term)

    def facts(self, term):
        return [self.sort().len(term) >= 0]

    def unwrap(self, ctx, v):
        return list_term(ctx, v, self.ety)


class TPath(Ty):
    """pathlib.Path identified with its string (already-normalised POSIX path)."""

    def sort(self):
        return z3.StringSort()

    def fresh(self, ctx, name):
        return Rec("Path", {"s": SV(ctx.fresh(name, z3.StringSort()), "str")})

    def wrap(self, term):
        return Rec("Path", {"s": sstr(term)})

    def unwrap(self, ctx, v):
        if isinstance(v, Rec) and v.cls_name == "Path":
            return zstr(v.fields["s"])
        raise Unsupported(f"not a Path: {v!r}")


class TPList(Ty):
    def fresh(self, ctx, name):
        return PList(ctx.fresh(name, usort("ObjList")))


class TDictOf(Ty):
    """python dict with the given concrete keys and fresh values of one type."""

    def __init__(self, keys, vty):
        self.keys, self.vty = list(keys), vty

    def fresh(self, ctx, name):
        return {k: self.vty.fresh(ctx, f"{name}[{k}]") for k in self.keys}


class TOpaque(Ty):
    def __init__(self, sortname):
        self.sortname = sortname

    def fresh(self, ctx, name):
        return Opaque(ctx.fresh(name, usort(self.sortname)), self.sortname)

    def sort(self):
        return usort(self.sortname)

    def wrap(self, term):
        return Opaque(term, self.sortname)

    def unwrap(self, ctx, v):
        return v.t


# --------------------------------------------------------------------------------------
# helpers
# --------------------------------------------------------------------------------------
def is_sym(v) -> bool:
    return isinstance(v, (SV, BStr, SEnum, SOpt, SDate, SList, SMap, Opaque, PList))


def is_concrete(v) -> bool:
    """Deeply concrete python value (safe to hand to native code)."""
    if isinstance(v, (SV, SEnum, SOpt, SDate, SList, SMap, Rec, Opaque, PList)):
        return False
    if isinstance(v, BStr):
        return False
    if type(v).__module__.startswith("engine."):
        return False  # any other interpreter-internal object (symbolic set, closure, ...) is not a python value
    if isinstance(v, (list, tuple, set, frozenset)):
        return all(is_concrete(x) for x in v)
    if isinstance(v, dict):
        return all(is_concrete(k) and is_concrete(x) for k, x in v.items())
    return True


def is_strlike(v) -> bool:
    return isinstance(v, (str, BStr)) or (isinstance(v, SV) and v.kind == "str")


def is_intlike(v) -> bool:
    return (isinstance(v, int) and not isinstance(v, bool)) or (
        isinstance(v, SV) and v.kind == "int"
    )


def is_boollike(v) -> bool:
    return isinstance(v, bool) or (isinstance(v, SV) and v.kind == "bool")


def zint(v):
    if isinstance(v, bool):
        return z3.IntVal(int(v))
    if isinstance(v, int):
        return z3.IntVal(v)
    if isinstance(v, SV) and v.kind == "int":
        return v.t
    if isinstance(v, SV) and v.kind == "bool":
        return z3.If(v.t, z3.IntVal(1), z3.IntVal(0))
    raise Unsupported(f"not an int: {v!r}")


def zbool(v):
    if isinstance(v, bool):
        return z3.BoolVal(v)
    if isinstance(v, SV) and v.kind == "bool":
        return v.t
    raise Unsupported(f"not a bool: {v!r}")


def zstr(v):
    if isinstance(v, str):
        return z3.StringVal(v)
    if isinstance(v, SV) and v.kind == "str":
        return v.t
    if isinstance(v, BStr):
        if v.origin is not None:
            return v.origin
        if not v.chars:
            return z3.StringVal("")
        parts = [
            z3.StringVal(chr(c)) if isinstance(c, int) else z3.StrFromCode(c) for c in v.chars
        ]
        return parts[0] if len(parts) == 1 else z3.Concat(*parts)
    raise Unsupported(f"not a str: {v!r}")


def mk(v):
    """Simplify wrappers whose term is a literal back into python values."""
    if isinstance(v, SV):
        t = z3.simplify(v.t)
        if v.kind == "bool":
            if z3.is_true(t):
                return True
            if z3.is_false(t):
                return False
        elif v.kind == "int":
            if z3.is_int_value(t):
                return t.as_long()
        elif v.kind == "str":
            if z3.is_string_value(t):
                return t.as_string() if _plain(t) else SV(t, "str")
        return SV(t, v.kind)
    if isinstance(v, BStr) and v.is_concrete():
        return v.to_py()
    return v


def _plain(t) -> bool:
    try:
        s = t.as_string()
        return "\\u{" not in s and "\\x" not in s
    except Exception:
        return False


def sbool(t):
    return mk(SV(t, "bool"))


def sint(t):
    return mk(SV(t, "int"))


def sstr(t):
    return mk(SV(t, "str"))


def concretize(v, m):
    """Python value of `v` under z3 model `m` (for counter-model replay)."""
    ev = lambda t: m.eval(t, model_completion=True)
    if isinstance(v, SV):
        r = ev(v.t)
        if v.kind == "int":
            return r.as_long()
        if v.kind == "bool":
            return z3.is_true(r)
        if v.kind == "str":
            return _z3str_to_py(r)
    if isinstance(v, BStr):
        return "".join(chr(c if isinstance(c, int) else ev(c).as_long()) for c in v.chars)
    if isinstance(v, SEnum):
        return list(v.cls)[ev(v.t).as_long()]
    if isinstance(v, SOpt):
        return None if z3.is_true(ev(v.isnone)) else concretize(v.val, m)
    if isinstance(v, SDate):
        return {"__date_ordinal__": ev(v.t).as_long()}
    if isinstance(v, SList):
        n = ev(zint(v.length)).as_long()
        n = max(0, min(n, 64))
        return [concretize(v.ety.wrap(z3.Select(v.arr, i)), m) for i in range(n)]
    if isinstance(v, SMap):
        return {"__smap__": str(ev(v.has))[:300], "val": str(ev(v.val))[:300]}
    if isinstance(v, Rec):
        return {k: concretize(x, m) for k, x in v.fields.items()}
    if isinstance(v, PList):
        return {"__plist_tail__": [concretize(x, m) for x in v.tail]}
    if isinstance(v, Opaque):
        return str(ev(v.t))
    if isinstance(v, list):
        return [concretize(x, m) for x in v]
    if isinstance(v, tuple):
        return tuple(concretize(x, m) for x in v)
    if isinstance(v, dict):
        return {concretize(k, m): concretize(x, m) for k, x in v.items()}
    if isinstance(v, enum.Enum):
        return v
    return v


def _z3str_to_py(r) -> str:
    s = r.as_string()
    # z3 escapes non-printables as \u{XX}
    import re

    return re.sub(r"\\u\{([0-9a-fA-F]+)\}", lambda mm: chr(int(mm.group(1), 16)), s)


# --------------------------------------------------------------------------------------
# truthiness and optional forcing
# --------------------------------------------------------------------------------------
def force(ctx: Ctx, v):
    """Resolves an SOpt into None or its payload (forks)."""
    while isinstance(v, SOpt):
        if ctx.branch(v.isnone, "is None"):
            return None
        v = v.val
    return v


def truth_term(ctx: Ctx, v):
    """Truthiness as a term/bool without forking where possible."""
    v = mk(v)
    if isinstance(v, SV):
        if v.kind == "bool":
            return v.t
        if v.kind == "int":
            return v.t != 0
        if v.kind == "str":
            return z3.Length(v.t) > 0
    if isinstance(v, BStr):
        return len(v) > 0
    if isinstance(v, SList):
        return zint(v.length) > 0
    if isinstance(v, SOpt):
        inner = truth_term(ctx, v.val)
        if isinstance(inner, bool):
            inner = z3.BoolVal(inner)
        return z3.And(z3.Not(v.isnone), inner)
    if isinstance(v, (SEnum, SDate, Rec, Opaque)):
        return True
    if isinstance(v, PList):
        if v.tail:
            return True
        raise Unsupported("truthiness of an object list with unknown prefix")
    if isinstance(v, SMap):
        raise Unsupported("truthiness of a symbolic map")
    return bool(v)


def truth(ctx: Ctx, v, note="") -> bool:
    return ctx.branch(truth_term(ctx, v), note)


# --------------------------------------------------------------------------------------
# equality / comparison
# --------------------------------------------------------------------------------------
def eq_term(ctx: Ctx, a, b):
    """Term (or python bool) for a == b."""
    a, b = mk(a), mk(b)
    if isinstance(a, SOpt) or isinstance(b, SOpt):
        if isinstance(a, SOpt) and b is None:
            return a.isnone
        if isinstance(b, SOpt) and a is None:
            return b.isnone
        if isinstance(a, SOpt) and isinstance(b, SOpt):
            inner = eq_term(ctx, a.val, b.val)
            inner = z3.BoolVal(inner) if isinstance(inner, bool) else inner
            return z3.Or(z3.And(a.isnone, b.isnone), z3.And(z3.Not(a.isnone), z3.Not(b.isnone), inner))
        o, x = (a, b) if isinstance(a, SOpt) else (b, a)
        inner = eq_term(ctx, o.val, x)
        inner = z3.BoolVal(inner) if isinstance(inner, bool) else inner
        return z3.And(z3.Not(o.isnone), inner)
    if a is None or b is None:
        return a is None and b is None
    if is_strlike(a) and is_strlike(b):
        return _str_eq(a, b)
    if is_strlike(a) != is_strlike(b):
        return False
    if isinstance(a, SEnum) or isinstance(b, SEnum):
        if isinstance(a, SEnum) and isinstance(b, SEnum):
            return a.t == b.t if a.cls is b.cls else False
        s, c = (a, b) if isinstance(a, SEnum) else (b, a)
        if isinstance(c, s.cls):
            return s.t == list(s.cls).index(c)
        # str-valued enums compare equal to their value in python only for (str, Enum) mixins
        if isinstance(c, str) and issubclass(s.cls, str):
            idx = [i for i, mem in enumerate(s.cls) if mem.value == c]
            return s.t == idx[0] if idx else False
        return False
    if isinstance(a, SDate) or isinstance(b, SDate):
        if isinstance(a, SDate) and isinstance(b, SDate):
            return a.t == b.t
        return False
    if isinstance(a, Opaque) and isinstance(b, Opaque):
        return a.t == b.t
    if (is_boollike(a) or is_intlike(a)) and (is_boollike(b) or is_intlike(b)):
        if is_boollike(a) and is_boollike(b):
            if isinstance(a, bool) and isinstance(b, bool):
                return a == b
            return zbool(a) == zbool(b)
        return zint(a) == zint(b)
    if isinstance(a, (tuple, list)) and isinstance(b, (tuple, list)):
        if type(a) is not type(b) or len(a) != len(b):
            return False
        parts = [eq_term(ctx, x, y) for x, y in zip(a, b)]
        if all(isinstance(p, bool) for p in parts):
            return all(parts)
        return z3.And(*[z3.BoolVal(p) if isinstance(p, bool) else p for p in parts])
    if isinstance(a, PList) or isinstance(b, PList):
        if not (isinstance(a, PList) and isinstance(b, PList)):
            return False if not (isinstance(a, list) or isinstance(b, list)) else _plist_vs_list(ctx, a, b)
        base_eq = None
        if (a.base is None) != (b.base is None) or (a.base is not None and not a.base.eq(b.base)):
            # prefix ++ tail lists of equal tail length are equal iff the prefixes are equal and the tails are pairwise equal
            if len(a.tail) != len(b.tail):
                raise Unsupported("comparison of object lists with different unknown prefixes and different known suffix lengths")
            empty = z3.Const("ObjList.empty", usort("ObjList"))
            base_eq = (a.base if a.base is not None else empty) == (b.base if b.base is not None else empty)
        if len(a.tail) != len(b.tail):
            return False
        parts = ([base_eq] if base_eq is not None else []) + [(x is y) if isinstance(x, Rec) and isinstance(y, Rec) else eq_term(ctx, x, y) for x, y in zip(a.tail, b.tail)]
        if all(isinstance(p, bool) for p in parts):
            return all(parts)
        return z3.And(*[z3.BoolVal(p) if isinstance(p, bool) else p for p in parts])
    if isinstance(a, SList) and isinstance(b, SList):
        if a.arr.eq(b.arr) and z3.is_true(z3.simplify(zint(a.length) == zint(b.length))):
            return True
        if a.whole is not None and b.whole is not None:
            return a.whole == b.whole  # quantifier-free (whole-value equality implies list equality)
        i = z3.Int(ctx.fresh_name("eqi"))
        return z3.And(
            zint(a.length) == zint(b.length),
            z3.ForAll([i], z3.Implies(z3.And(i >= 0, i < zint(a.length)), z3.Select(a.arr, i) == z3.Select(b.arr, i))),
        )
    if isinstance(a, SList) or isinstance(b, SList):
        s, c = (a, b) if isinstance(a, SList) else (b, a)
        if not isinstance(c, list):
            return False
        parts = [zint(s.length) == len(c)]
        for i, x in enumerate(c):
            parts.append(z3.Select(s.arr, i) == s.ety.unwrap(ctx, x))
        return z3.And(*parts)
    if isinstance(a, SMap) and isinstance(b, SMap):
        if a.has.eq(b.has) and a.val.eq(b.val):
            return True
        k = z3.Const(ctx.fresh_name("mk"), a.kty.sort())
        return z3.And(
            a.has == b.has,  # extensional array equality (quantifier-free)
            z3.ForAll([k], z3.Implies(z3.Select(a.has, k), z3.Select(a.val, k) == z3.Select(b.val, k))),
        )
    if isinstance(a, SMap) or isinstance(b, SMap):
        m, d = (a, b) if isinstance(a, SMap) else (b, a)
        if not isinstance(d, dict):
            return False
        if not d:
            return m.has == z3.K(m.kty.sort(), z3.BoolVal(False))  # emptiness is quantifier-free
        return eq_term(ctx, m, dict_to_smap(ctx, d, m.kty, m.vty))
    if type(a).__name__ == "_SymSet" or type(b).__name__ == "_SymSet":
        ia = list(a.items) if type(a).__name__ == "_SymSet" else (list(a) if isinstance(a, (set, frozenset)) else None)
        ib = list(b.items) if type(b).__name__ == "_SymSet" else (list(b) if isinstance(b, (set, frozenset)) else None)
        if ia is None or ib is None:
            return False
        parts = [contains_term(ctx, x, ib) for x in ia] + [contains_term(ctx, y, ia) for y in ib]
        if any(p is False for p in parts):
            return False
        parts = [p for p in parts if p is not True]
        return True if not parts else z3.And(*parts)
    if isinstance(a, Rec) or isinstance(b, Rec):
        if isinstance(a, Rec) and isinstance(b, Rec):
            if a is b:
                return True
            if a.cls_name != b.cls_name:
                return False
            # dataclass structural equality
            if set(a.fields) != set(b.fields):
                return False
            parts = [eq_term(ctx, a.fields[k], b.fields[k]) for k in a.fields]
            if all(isinstance(p, bool) for p in parts):
                return all(parts)
            return z3.And(*[z3.BoolVal(p) if isinstance(p, bool) else p for p in parts])
        return False
    if is_concrete(a) and is_concrete(b):
        return a == b
    if isinstance(a, dict) and isinstance(b, dict):
        if set(a.keys()) != set(b.keys()):
            if is_concrete(list(a.keys())) and is_concrete(list(b.keys())):
                return False
            raise Unsupported("dict equality with symbolic keys")
        parts = [eq_term(ctx, a[k], b[k]) for k in a]
        if all(isinstance(p, bool) for p in parts):
            return all(parts)
        return z3.And(*[z3.BoolVal(p) if isinstance(p, bool) else p for p in parts])
    raise Unsupported(f"equality of {type(a).__name__} and {type(b).__name__}")


def _plist_vs_list(ctx, a, b):
    p, l = (a, b) if isinstance(a, PList) else (b, a)
    if p.base is not None:
        if l:
            raise Unsupported("object list with unknown prefix compared with a non-empty literal list")
        if p.tail:
            return False
        return p.base == z3.Const("ObjList.empty", usort("ObjList"))  # the prefix is the empty list
    return eq_term(ctx, p.tail, l)


def _str_eq(a, b):
    if isinstance(a, str) and isinstance(b, str):
        return a == b
    if isinstance(a, (BStr, str)) and isinstance(b, (BStr, str)):
        ca = a.chars if isinstance(a, BStr) else [ord(c) for c in a]
        cb = b.chars if isinstance(b, BStr) else [ord(c) for c in b]
        if len(ca) != len(cb):
            return False
        parts = []
        for x, y in zip(ca, cb):
            if isinstance(x, int) and isinstance(y, int):
                if x != y:
                    return False
            else:
                parts.append((x if not isinstance(x, int) else z3.IntVal(x)) == (y if not isinstance(y, int) else z3.IntVal(y)))
        if not parts:
            return True
        return z3.And(*parts) if len(parts) > 1 else parts[0]
    return zstr(a) == zstr(b)


def lt_term(ctx, a, b, op):
    """a < b etc. for ints, strings, dates."""
    a, b = mk(a), mk(b)
    fn = {"Lt": operator.lt, "LtE": operator.le, "Gt": operator.gt, "GtE": operator.ge}[op]
    if is_concrete(a) and is_concrete(b):
        return fn(a, b)
    if (is_intlike(a) or is_boollike(a)) and (is_intlike(b) or is_boollike(b)):
        return fn(zint(a), zint(b))
    if isinstance(a, SDate) and isinstance(b, SDate):
        return fn(a.t, b.t)
    if is_strlike(a) and is_strlike(b):
        if isinstance(a, (BStr, str)) and isinstance(b, (BStr, str)):
            return _bstr_cmp(a, b, op)
        za, zb = zstr(a), zstr(b)
        if op == "Lt":
            return za < zb
        if op == "LtE":
            return za <= zb
        if op == "Gt":
            return zb < za
        return zb <= za
    raise Unsupported(f"ordering of {type(a).__name__} and {type(b).__name__}")


def _bstr_cmp(a, b, op):
    ca = a.chars if isinstance(a, BStr) else [ord(c) for c in a]
    cb = b.chars if isinstance(b, BStr) else [ord(c) for c in b]
    iv = lambda x: z3.IntVal(x) if isinstance(x, int) else x

    def lt(i):  # strict less from position i
        if i >= len(ca) and i >= len(cb):
            return z3.BoolVal(False)
        if i >= len(ca):
            return z3.BoolVal(True)
        if i >= len(cb):
            return z3.BoolVal(False)
        return z3.Or(iv(ca[i]) < iv(cb[i]), z3.And(iv(ca[i]) == iv(cb[i]), lt(i + 1)))

    e = _str_eq(a, b)
    e = z3.BoolVal(e) if isinstance(e, bool) else e
    if op == "Lt":
        return lt(0)
    if op == "LtE":
        return z3.Or(lt(0), e)
    if op == "Gt":
        return z3.And(z3.Not(lt(0)), z3.Not(e))
    return z3.Not(lt(0))


def contains_term(ctx, x, container):
    """x in container."""
    x, container = mk(x), mk(container)
    if is_concrete(x) and is_concrete(container):
        return x in container
    if isinstance(container, range) and container.step == 1 and is_intlike(x):
        return z3.And(zint(x) >= container.start, zint(x) < container.stop)
    if isinstance(container, (tuple, list, set, frozenset)):
        parts = [eq_term(ctx, x, e) for e in container]
        if any(p is True for p in parts):
            return True
        parts = [p for p in parts if p is not False]
        if not parts:
            return False
        return z3.Or(*parts) if len(parts) > 1 else parts[0]
    if isinstance(container, dict):
        return contains_term(ctx, x, [k.v if type(k).__name__ == "_SymKey" else k for k in container.keys()])
    if is_strlike(container) and is_strlike(x):
        if isinstance(container, str) and isinstance(x, BStr) and len(x) == 1:
            c = x.chars[0]
            return z3.Or(*[c == ord(ch) for ch in container]) if container else False
        return z3.Contains(zstr(container), zstr(x))
    if isinstance(container, SMap):
        return z3.Select(container.has, container.kty.unwrap(ctx, x))
    if isinstance(container, SList):
        i = z3.Int(ctx.fresh_name("ini"))
        return z3.Exists([i], z3.And(i >= 0, i < zint(container.length), z3.Select(container.arr, i) == container.ety.unwrap(ctx, x)))
    raise Unsupported(f"'in' on {type(container).__name__}")


# --------------------------------------------------------------------------------------
# arithmetic / concatenation
# --------------------------------------------------------------------------------------
_PYOPS = {
    "Add": operator.add,
    "Sub": operator.sub,
    "Mult": operator.mul,
    "FloorDiv": operator.floordiv,
    "Mod": operator.mod,
    "BitOr": operator.or_,
    "BitAnd": operator.and_,
    "Div": operator.truediv,
    "Pow": operator.pow,
}


def binop(ctx: Ctx, op: str, a, b):
    a, b = mk(a), mk(b)
    if op == "Sub" and type(a).__name__ == "_KeyList" and type(b).__name__ == "_KeyList":
        out = type(a)()
        for x in a:
            t = contains_term(ctx, x, list(b))
            if t is True:
                continue
            if t is False or not ctx.branch(t, "key also in the other map"):
                out.append(x)
        return out
    if is_concrete(a) and is_concrete(b):
        return _PYOPS[op](a, b)
    if op == "Add":
        if is_strlike(a) and is_strlike(b):
            return str_concat(a, b)
        if isinstance(a, list) and isinstance(b, list):
            return a + b
        if isinstance(a, tuple) and isinstance(b, tuple):
            return a + b
        if isinstance(a, (SList, list)) and isinstance(b, (SList, list)):
            return slist_concat(ctx, a, b)
    if op == "BitOr" and (isinstance(a, SMap) or isinstance(b, SMap)) and isinstance(a, (SMap, dict)) and isinstance(b, (SMap, dict)):
        # dict union, right operand wins
        if isinstance(a, dict):
            a = dict_to_smap(ctx, a, b.kty, b.vty)
        if isinstance(b, dict):
            b = dict_to_smap(ctx, b, a.kty, a.vty)
        k = z3.Const("uk", a.kty.sort())  # bound: a fixed name keeps identical unions syntactically equal
        has = z3.Lambda([k], z3.Or(z3.Select(a.has, k), z3.Select(b.has, k)))
        val = z3.Lambda([k], z3.If(z3.Select(b.has, k), z3.Select(b.val, k), z3.Select(a.val, k)))
        return SMap(has, val, a.kty, a.vty)
    if op == "BitOr" and isinstance(a, dict) and isinstance(b, dict):
        if is_concrete(list(a.keys())) and is_concrete(list(b.keys())):
            r = dict(a)
            r.update(b)
            return r
        raise Unsupported("dict | dict with symbolic keys")
    if op == "Mult" and is_strlike(a) and isinstance(b, int):
        r = ""
        for _ in range(b):
            r = str_concat(r, a)
        return r
    if (is_intlike(a) or is_boollike(a)) and (is_intlike(b) or is_boollike(b)):
        x, y = zint(a), zint(b)
        if op == "Add":
            return sint(x + y)
        if op == "Sub":
            return sint(x - y)
        if op == "Mult":
            return sint(x * y)
        if op in ("FloorDiv", "Mod"):
            if not (isinstance(b, int) and b > 0):
                raise Unsupported("// or % with non-constant or non-positive divisor")
            return sint(x / y) if op == "FloorDiv" else sint(x % y)
    if isinstance(a, SDate) and isinstance(b, SDate) and op == "Sub":
        raise Unsupported("date - date")
    raise Unsupported(f"binop {op} on {type(a).__name__}, {type(b).__name__}")


def str_concat(a, b):
    if isinstance(a, str) and isinstance(b, str):
        return a + b
    if isinstance(a, (str, BStr)) and isinstance(b, (str, BStr)):
        ca = a.chars if isinstance(a, BStr) else [ord(c) for c in a]
        cb = b.chars if isinstance(b, BStr) else [ord(c) for c in b]
        return mk(BStr(ca + cb))
    if isinstance(a, str) and a == "":
        return b
    if isinstance(b, str) and b == "":
        return a
    return sstr(z3.Concat(zstr(a), zstr(b)))


def slist_concat(ctx, a, b):
    a = to_slist(ctx, a, b.ety if isinstance(b, SList) else None)
    b = to_slist(ctx, b, a.ety)
    i = z3.Int("cci")
    la = zint(a.length)
    arr = z3.Lambda([i], z3.If(i < la, z3.Select(a.arr, i), z3.Select(b.arr, i - la)))
    return SList(sint(la + zint(b.length)), arr, a.ety)


def to_slist(ctx, v, ety=None):
    if isinstance(v, SList):
        return v
    if isinstance(v, list):
        if ety is None:
            raise Unsupported("cannot infer element type of list")
        arr = z3.K(z3.IntSort(), _default(ety))
        for i, x in enumerate(v):
            arr = z3.Store(arr, i, ety.unwrap(ctx, x))
        return SList(len(v), arr, ety)
    raise Unsupported(f"not a list: {type(v).__name__}")


def _default(ety):
    s = ety.sort()
    if s == z3.IntSort():
        return z3.IntVal(0)
    if s == z3.BoolSort():
        return z3.BoolVal(False)
    if s == z3.StringSort():
        return z3.StringVal("")
    return z3.Const("dflt_" + str(s), s)


def dict_to_smap(ctx, d: dict, kty, vty):
    has = z3.K(kty.sort(), z3.BoolVal(False))
    val = z3.K(kty.sort(), _default(vty))
    for k, v in d.items():
        kk = k.v if type(k).__name__ == "_SymKey" else k
        kt = kty.unwrap(ctx, kk)
        has = z3.Store(has, kt, True)
        val = z3.Store(val, kt, vty.unwrap(ctx, v))
    return SMap(has, val, kty, vty)


def coerce_to_bstr(ctx, v, lo, hi):
    """SV str -> BStr by case split on the length (caller has established lo <= len <= hi)."""
    v = mk(v)
    if isinstance(v, (BStr, str)):
        return v
    t = zstr(v)
    n = lo
    while n < hi:
        if ctx.branch(z3.Length(t) == n, f"len=={n}"):
            break
        n += 1
    ctx.assume(z3.Length(t) == n)
    chars = []
    for i in range(n):
        c = ctx.fresh(f"code{i}", z3.IntSort())
        ctx.assume(c == z3.StrToCode(z3.SubString(t, i, 1)))
        chars.append(c)
    return BStr(chars, origin=t)


def unop(ctx, op: str, a):
    a = mk(a)
    if op == "Not":
        t = truth_term(ctx, a)
        return (not t) if isinstance(t, bool) else sbool(z3.Not(t))
    if is_concrete(a):
        return {"USub": operator.neg, "UAdd": operator.pos, "Invert": operator.invert}[op](a)
    if op == "USub":
        return sint(-zint(a))
    if op == "UAdd":
        return a
    raise Unsupported(f"unop {op}")


# --------------------------------------------------------------------------------------
# subscripts
# --------------------------------------------------------------------------------------
class PyRaise(Exception):
    """An exception raised by the interpreted program."""

    def __init__(self, etype: str, msg: str = "", node=None):
        super().__init__(f"{etype}: {msg}")
        self.etype = etype
        self.msg = msg
        self.node = node


def _norm_index(ctx, i, n, what="list"):
    """Python index normalisation with an IndexError path. i, n ints or terms. Returns term/int."""
    if isinstance(i, int) and isinstance(n, int):
        if -n <= i < n:
            return i % n if n else 0
        raise PyRaise("IndexError", f"{what} index out of range")
    zi, zn = zint(i), zint(n)
    if not ctx.branch(z3.And(zi >= -zn, zi < zn), "index in range"):
        raise PyRaise("IndexError", f"{what} index out of range")
    if isinstance(i, int):
        return i if i >= 0 else sint(zn + i)
    if ctx.branch(zi >= 0, "index >= 0"):
        return i
    return sint(zn + zi)


def subscript(ctx: Ctx, v, idx):
    v = force(ctx, v)
    if v is None:
        raise PyRaise("TypeError", "'NoneType' object is not subscriptable")
    if isinstance(idx, slice):
        return _slice(ctx, v, idx)
    idx = mk(idx)
    if isinstance(v, PList) and v.base is None:
        v = v.tail  # an object list without unknown prefix is its known elements
    if is_concrete(v) and is_concrete(idx) and not isinstance(v, dict):
        try:
            return v[idx]
        except IndexError as e:
            raise PyRaise("IndexError", str(e))
        except KeyError as e:
            raise PyRaise("KeyError", str(e))
    if isinstance(v, dict):
        if is_concrete(idx):
            try:
                hash(idx)
            except TypeError:
                raise Unsupported("unhashable key")
            if idx in v:
                return v[idx]
            if is_concrete(list(v.keys())):
                raise PyRaise("KeyError", repr(idx))
        for k in v:
            t = eq_term(ctx, idx, k.v if type(k).__name__ == "_SymKey" else k)
            if t is False:
                continue
            if t is True or ctx.branch(_as_term(t), "key equals an existing key"):
                return v[k]
        raise PyRaise("KeyError", "symbolic key")
    if isinstance(v, (list, tuple)):
        if isinstance(idx, int):
            try:
                return v[idx]
            except IndexError as e:
                raise PyRaise("IndexError", str(e))
        i = _norm_index(ctx, idx, len(v))
        for k in range(len(v)):
            if ctx.branch(zint(i) == k, f"idx=={k}"):
                return v[k]
        raise Abort("unreachable index")
    if isinstance(v, BStr) or isinstance(v, str):
        chars = v.chars if isinstance(v, BStr) else [ord(c) for c in v]
        if isinstance(idx, int):
            i = _norm_index(ctx, idx, len(chars), "string")
            return mk(BStr([chars[i]]))
        i = _norm_index(ctx, idx, len(chars), "string")
        for k in range(len(chars)):
            if ctx.branch(zint(i) == k, f"idx=={k}"):
                return mk(BStr([chars[k]]))
        raise Abort("unreachable index")
    if isinstance(v, SV) and v.kind == "str":
        n = z3.Length(v.t)
        i = _norm_index(ctx, idx, sint(n), "string")
        return sstr(z3.SubString(v.t, zint(i), 1))
    if isinstance(v, SList):
        i = _norm_index(ctx, idx, v.length)
        return mk_elem(v.ety, z3.Select(v.arr, zint(i)), ctx)
    if isinstance(v, SMap):
        k = v.kty.unwrap(ctx, idx)
        if not ctx.branch(z3.Select(v.has, k), "key in map"):
            raise PyRaise("KeyError", "symbolic key not in map")
        return mk_elem(v.vty, z3.Select(v.val, k), ctx)
    raise Unsupported(f"subscript on {type(v).__name__}")


def mk_elem(ety, term, ctx=None):
    term = z3.simplify(term)
    if ctx is not None and hasattr(ety, "facts"):
        for f in ety.facts(term):
            ctx.assume(f)
    w = ety.wrap(term)
    return mk(w) if isinstance(w, SV) else w


def _as_term(x):
    return z3.BoolVal(x) if isinstance(x, bool) else x


def _clamp(ctx, x, n, default):
    """Python slice bound clamping for step 1: returns int/term in [0, n]."""
    if x is None:
        return default
    x = mk(x)
    if isinstance(x, int) and isinstance(n, int):
        if x < 0:
            x += n
        return max(0, min(n, x))
    zx, zn = zint(x), zint(n)
    adj = z3.If(zx < 0, zx + zn, zx)
    return sint(z3.If(adj < 0, 0, z3.If(adj > zn, zn, adj)))


def _slice(ctx, v, sl: slice):
    if sl.step not in (None, 1):
        if is_concrete(v) and is_concrete(sl.start) and is_concrete(sl.stop):
            return v[sl]
        raise Unsupported("slice step")
    if is_concrete(v) and is_concrete(sl.start) and is_concrete(sl.stop):
        return v[sl.start : sl.stop]
    if isinstance(v, (list, tuple, str, BStr)):
        n = len(v)
        lo, hi = _clamp(ctx, sl.start, n, 0), _clamp(ctx, sl.stop, n, n)
        if not (isinstance(lo, int) and isinstance(hi, int)):
            # concretise bounded symbolic bounds by case split
            lo = _case_int(ctx, lo, 0, n)
            hi = _case_int(ctx, hi, 0, n)
        if isinstance(v, BStr):
            return mk(BStr(v.chars[lo:hi]))
        return v[lo:hi]
    if isinstance(v, SV) and v.kind == "str":
        n = sint(z3.Length(v.t))
        lo, hi = _clamp(ctx, sl.start, n, 0), _clamp(ctx, sl.stop, n, n)
        zlo, zhi = zint(lo), zint(hi)
        return sstr(z3.SubString(v.t, zlo, z3.If(zhi > zlo, zhi - zlo, 0)))
    if isinstance(v, SList):
        n = v.length
        lo, hi = _clamp(ctx, sl.start, n, 0), _clamp(ctx, sl.stop, n, n)
        zlo, zhi = zint(lo), zint(hi)
        i = z3.Int("sli")
        arr = z3.Lambda([i], z3.Select(v.arr, i + zlo))
        return SList(sint(z3.If(zhi > zlo, zhi - zlo, 0)), arr, v.ety)
    raise Unsupported(f"slice on {type(v).__name__}")


def _case_int(ctx, x, lo, hi):
    if isinstance(x, int):
        return x
    for k in range(lo, hi + 1):
        if ctx.branch(zint(x) == k, f"=={k}"):
            return k
    raise Abort("unreachable case")
