"""Driver: verifies one function against its sidecar contract, path by path."""
from __future__ import annotations

import importlib
import json
import os
import sys
import time
import traceback
from typing import Any, Optional

import z3

from . import spec as S
from . import sym
from .ctx import Abort, Ctx, Obligation, SpecError, Unsupported
from .interp import Interp, SOURCES, _as_term
from .sym import PyRaise

MAX_PATHS = int(os.environ.get("PYVC_MAX_PATHS", "3000"))


def load_contracts(modnames: list[str]) -> dict:
    for m in modnames:
        importlib.import_module(m)
    return S.REGISTRY


class FunctionReport:
    def __init__(self, key: str):
        self.key = key
        self.obligations: dict[str, dict] = {}  # name -> aggregated
        self.vcs = 0
        self.vcs_discharged = 0
        self.paths = 0
        self.paths_returning = 0
        self.paths_raising = 0
        self.undecided_reason: Optional[str] = None
        self.solver_time = 0.0
        self.wall = 0.0
        self.backends: dict[str, int] = {}
        self.inlined: set[str] = set()
        self.used_contracts: set[str] = set()
        self.used_models: set[str] = set()
        self.refuted: list[dict] = []
        self.vacuous = False
        self.abort_reasons: set = set()
        self.alts: list = []
        self.any_feasible = False
        self.bounded = None
        self.source_file = ""
        self.source_lines = (0, 0)

    def add(self, ob: Obligation):
        self.vcs += 1
        if ob.status == "proved":
            self.vcs_discharged += 1
        self.backends[ob.backend or "none"] = self.backends.get(ob.backend or "none", 0) + 1
        a = self.obligations.setdefault(ob.name, {"name": ob.name, "kind": ob.kind, "status": "proved", "vcs": 0, "time_s": 0.0, "detail": ob.detail, "backends": []})
        a["vcs"] += 1
        a["time_s"] = round(a["time_s"] + ob.time_s, 4)
        if ob.backend and ob.backend not in a["backends"]:
            a["backends"].append(ob.backend)
        rank = {"proved": 0, "undecided": 1, "refuted": 2}
        if rank[ob.status] > rank[a["status"]]:
            a["status"] = ob.status
            if ob.status != "proved":
                a["why"] = ob.solver_output[:500] or ob.detail
        if ob.status == "refuted":
            self.refuted.append(ob.to_json())

    def status(self) -> str:
        if any(o["status"] == "refuted" for o in self.obligations.values()):
            return "refuted"
        if self.undecided_reason or any(o["status"] == "undecided" for o in self.obligations.values()):
            return "undecided"
        if not self.obligations or self.vacuous:
            return "undecided"
        return "proved"

    def to_json(self) -> dict:
        return {
            "function": self.key,
            "status": self.status(),
            "source_file": self.source_file,
            "source_lines": list(self.source_lines),
            "paths": self.paths,
            "paths_returning": self.paths_returning,
            "paths_raising": self.paths_raising,
            "vcs": self.vcs,
            "vcs_discharged": self.vcs_discharged,
            "obligations": list(self.obligations.values()),
            "undecided_reason": self.undecided_reason,
            "vacuous": self.vacuous,
            "bounded": self.bounded,
            "solver_time_s": round(self.solver_time, 3),
            "wall_s": round(self.wall, 3),
            "backends": self.backends,
            "inlined": sorted(self.inlined),
            "used_contracts": sorted(self.used_contracts),
            "used_models": sorted(self.used_models),
            "refuted": self.refuted[:20],
            "abort_reasons": sorted(self.abort_reasons)[:5],
            "any_feasible": self.any_feasible,
        }


def _split_key(key: str):
    mod, qual = key.split(":")
    return mod, qual


def verify_function(key: str, contracts: dict, *, tier="quick", only_clauses=None, start=None, one_path=False):
    """Sequential driver (one_path=False) or a single path from decision prefix `start` (one_path=True: the
    untaken alternatives are returned in rep.alts for a parallel driver to schedule)."""
    c = contracts[key]
    rep = FunctionReport(key)
    if c.get("list_bound") is not None:
        rep.bounded = c.get("bounded_note") or f"bounded-symbolic: every list (arguments, lists returned by callee contracts) has length <= {c['list_bound']}; contents fully symbolic"
    elif c.get("bounded_note"):
        rep.bounded = c["bounded_note"]  # a stated bound on the inputs (e.g. string length): counted as bounded, never as proved
    t0 = time.time()
    mod, qual = _split_key(key)
    scale = float(os.environ.get("PYVC_TIMEOUT_SCALE", "1") or 1)  # second-chance pass of check.py
    oblig_timeout = int(c.get("timeout_ms", 10000 if tier == "quick" else 60000) * scale)
    feas_timeout = int(c.get("feas_timeout_ms", 1500) * scale)
    worklist: list = [dict(start) if start else {}]
    try:
        node = SOURCES.find(mod, qual)
    except Exception as e:
        rep.undecided_reason = f"contract target missing: {e}"
        rep.wall = time.time() - t0
        return rep
    if node is None:
        rep.undecided_reason = f"contract target {key} not found in source"
        rep.wall = time.time() - t0
        return rep
    rep.source_file = SOURCES.files.get(mod, "")
    rep.source_lines = (node.lineno, getattr(node, "end_lineno", node.lineno))
    any_feasible = False
    while worklist:
        if rep.paths >= MAX_PATHS:
            rep.undecided_reason = f"path budget {MAX_PATHS} exceeded"
            break
        prefix = worklist.pop()
        ctx = Ctx(prefix, feas_timeout_ms=feas_timeout, oblig_timeout_ms=oblig_timeout)
        interp = Interp(ctx, contracts, target_key=key)
        interp.current_contract = c
        interp.list_bound = c.get("list_bound")
        interp.reveal = tuple(c.get("reveal", ()))
        rep.paths += 1
        try:
            _run_path(interp, ctx, c, key, rep)
            any_feasible = True
        except Abort as e:
            any_feasible = any_feasible or bool(ctx.obligs)
            rep.abort_reasons.add(str(e))
        except Unsupported as e:
            rep.undecided_reason = f"UNSUPPORTED: {e}"
            for ob in ctx.obligs:
                rep.add(ob)
            break
        except SpecError as e:
            rep.undecided_reason = f"SPEC-ERROR: {e}"
            break
        except RecursionError:
            rep.undecided_reason = "recursion limit"
            break
        for ob in ctx.obligs:
            rep.add(ob)
        if os.environ.get("PYVC_DEBUG"):
            print(f"[pyvc] path {rep.paths} len={len(ctx.decisions)} feasq={ctx.feas_queries} solver={ctx.solver_time:.2f}s obligs={len(ctx.obligs)} t={time.time()-t0:.1f}s", file=sys.stderr, flush=True)
        rep.solver_time += ctx.solver_time
        rep.inlined |= interp.inlined
        rep.used_contracts |= interp.used_contracts
        rep.used_models |= interp.used_models
        if one_path:
            rep.alts = list(ctx.alts)
            rep.any_feasible = any_feasible
            rep.wall = time.time() - t0
            return rep
        worklist.extend(ctx.alts)
    if one_path:
        rep.alts = []
        rep.any_feasible = any_feasible
        rep.wall = time.time() - t0
        return rep
    if not any_feasible and not rep.undecided_reason:
        rep.vacuous = True
        rep.undecided_reason = "VACUOUS: no feasible path satisfies the precondition"
    if rep.paths_returning + rep.paths_raising == 0 and not rep.undecided_reason:
        rep.vacuous = True
        rep.undecided_reason = "VACUOUS: no explored path reaches an exit of the function (" + "; ".join(sorted(rep.abort_reasons)[:3]) + ")"
    rep.wall = time.time() - t0
    return rep


def make_inputs(interp: Interp, ctx: Ctx, c: dict) -> tuple[dict, dict]:
    loc = {}
    for name, ty in c["args"].items():
        loc[name] = ty.fresh(ctx, name)
    if c.get("prelude"):
        c["prelude"](interp, loc)
    return loc


def _kf(interp, c, obname: str, term, old):
    """Known findings: the obligation is proved restricted to inputs outside the listed class."""
    classes = [k["class"] for k in c.get("known", []) if k["obligation"] == obname]
    if not classes:
        return term
    neg = []
    for cl in classes:
        neg.append(z3.Not(_as_term(S.eval_clause(interp, c, cl, old, old, None))))
    return z3.Implies(z3.And(*neg), term)


def _run_path(interp: Interp, ctx: Ctx, c: dict, key: str, rep: FunctionReport):
    mod, qual = _split_key(key)
    from . import models as _m0

    _m0.fs_state(interp)
    loc = make_inputs(interp, ctx, c)
    old = S.snapshot(loc)
    ctx.inputs = dict(old)
    ctx.inputs_ghost = ctx.ghost
    for name, clause in c["requires"].items():
        ctx.assume(_as_term(S.eval_clause(interp, c, clause, loc, old, None)))
    if not ctx.feasible():
        raise Abort("precondition infeasible on this case")
    from .interp import _ghost_copy
    from . import models as _models

    _models.fs_state(interp)
    interp.old_ghost = _ghost_copy(ctx.ghost)
    f = interp.make_ifunc(mod, qual)
    interp.loopspecs = c.get("loops", {})
    interp.stubs = dict(c.get("stubs") or {})
    interp.inline_keys = set(c.get("inline") or ())
    interp.entry_old = old
    args = []
    kwargs = {}
    a = f.node.args
    pos = [p.arg for p in a.posonlyargs + a.args]
    for p in pos:
        if p in loc:
            args.append(loc[p])
        else:
            break
    for p in list(loc):
        if p not in pos[: len(args)] and not p.startswith("_ghost"):
            if a.kwarg is not None and p == a.kwarg.arg and isinstance(loc[p], dict):
                kwargs.update(loc[p])
            else:
                kwargs[p] = loc[p]
    qn = qual
    try:
        interp.bind_params(f, args, kwargs, f.gl)
    except PyRaise as e:
        raise Unsupported(f"contract arguments do not match the function's signature ({e.msg})")
    try:
        result = interp.call_ifunc(f, args, kwargs, force_inline=True)
    except PyRaise as e:
        rep.paths_raising += 1
        _check_raise(interp, ctx, c, qn, e, loc, old)
        return
    rep.paths_returning += 1
    for etype, clause in c["raises"].items():
        t = S.eval_clause(interp, c, clause, old, old, None)
        ctx.obligate(f"{qn}/raises-iff/{etype}", _kf(interp, c, f"{qn}/raises-iff/{etype}", z3.Not(_as_term(t)), old), kind="raises", detail=f"returns normally although `{clause}`")
    interp.old_env = None
    for name, clause in c["ensures"].items():
        t = S.eval_clause(interp, c, clause, loc, old, result)
        ctx.obligate(f"{qn}/ensures/{name}", _kf(interp, c, f"{qn}/ensures/{name}", _as_term(t), old), kind="post", detail=clause)
    if c.get("frame"):
        _check_frame(interp, ctx, c, qn, loc, old)


def _check_raise(interp, ctx, c, qn, e: PyRaise, loc, old):
    from .interp import exc_matches

    for etype, clause in c["raises"].items():
        if exc_matches(e.etype, [etype]):
            t = S.eval_clause(interp, c, clause, old, old, None)
            ctx.obligate(f"{qn}/raises/{etype}", _kf(interp, c, f"{qn}/raises/{etype}", _as_term(t), old), kind="raises", detail=f"raised {e.etype} ({e.msg}) outside `{clause}`")
            return
    if exc_matches(e.etype, list(c.get("may_raise", ()))):
        return
    ctx.obligate(f"{qn}/no-raise/{e.etype}", _kf(interp, c, f"{qn}/no-raise/{e.etype}", z3.BoolVal(False), old), kind="raises", detail=f"raises {e.etype}: {e.msg}")


def _check_frame(interp, ctx, c, qn, loc, old):
    """Everything reachable from the arguments and not listed in `modifies` is unchanged."""
    mods = set(c["modifies"].keys())

    def walk(path, new, o):
        if path in mods:
            return
        if isinstance(new, sym.Rec) and isinstance(o, sym.Rec):
            if new.cls_name != o.cls_name:
                ctx.obligate(f"{qn}/frame/{path}", z3.BoolVal(False), kind="frame", detail=f"{path} unchanged")
                return
            for k in o.fields:
                if k in new.fields:
                    walk(f"{path}.{k}", new.fields[k], o.fields[k])
            return
        if isinstance(o, sym.SOpt) and any(m.startswith(path + ".") for m in mods):
            # an Optional object some of whose fields may change: same None-ness, other fields unchanged
            if isinstance(new, sym.SOpt):
                ctx.obligate(f"{qn}/frame/{path}", new.isnone == o.isnone, kind="frame", detail=f"{path} None-ness unchanged")
                if not ctx.branch(o.isnone, f"{path} is None"):
                    walk(path, new.val, o.val)
                return
            if new is None:
                ctx.obligate(f"{qn}/frame/{path}", o.isnone, kind="frame", detail=f"{path} None-ness unchanged")
                return
            ctx.obligate(f"{qn}/frame/{path}", z3.Not(o.isnone), kind="frame", detail=f"{path} None-ness unchanged")
            walk(path, new, o.val)
            return
        try:
            t = sym.eq_term(ctx, new, o)
        except Unsupported:
            return
        ctx.obligate(f"{qn}/frame/{path}", _as_term(t) if not isinstance(t, bool) else z3.BoolVal(t), kind="frame", detail=f"{path} unchanged")

    for name in c["frame"] if isinstance(c["frame"], (list, tuple)) else list(loc):
        if name in loc and name in old:
            walk(name, loc[name], old[name])


# ---------------------------------------------------------------------------------------
# lemmas (pure obligations over spec functions / contracts)
# ---------------------------------------------------------------------------------------
def verify_lemma(name: str, *, tier="quick", start=None, one_path=False) -> FunctionReport:
    l = S.LEMMAS[name]
    rep = FunctionReport("lemma:" + name)
    rep.bounded = l.get("bounded")
    t0 = time.time()
    worklist: list = [dict(start) if start else {}]
    c = {"gl": l["gl"], "module": l["module"]}
    any_feasible = False
    while worklist:
        prefix = worklist.pop()
        ctx = Ctx(prefix, oblig_timeout_ms=int((l.get("timeout_ms") or (10000 if tier == "quick" else 60000)) * float(os.environ.get("PYVC_TIMEOUT_SCALE", "1") or 1)))
        interp = Interp(ctx, S.REGISTRY, target_key=None)
        interp.current_contract = c
        if l.get("bounded"):
            interp.list_bound = l.get("list_bound") or 3
        rep.paths += 1
        try:
            loc = {k: ty.fresh(ctx, k) for k, ty in l["vars"].items()}
            ctx.inputs = dict(loc)
            for nm, clause in l["assumes"].items():
                ctx.assume(_as_term(S.eval_clause(interp, c, clause, loc, None, None)))
            if not ctx.feasible():
                raise Abort("lemma hypotheses infeasible on this case")
            any_feasible = True
            for nm, clause in l["shows"].items():
                t = S.eval_clause(interp, c, clause, loc, None, None)
                ctx.obligate(f"lemma:{name}/{nm}", _as_term(t), kind="lemma", detail=clause)
        except Abort:
            pass
        except Unsupported as e:
            rep.undecided_reason = f"UNSUPPORTED: {e}"
            break
        except SpecError as e:
            rep.undecided_reason = f"SPEC-ERROR: {e}"
            break
        for ob in ctx.obligs:
            rep.add(ob)
        rep.solver_time += ctx.solver_time
        rep.used_models |= interp.used_models
        if one_path:
            rep.alts = list(ctx.alts)
            rep.any_feasible = any_feasible
            rep.paths_returning += 1 if any_feasible else 0
            rep.wall = time.time() - t0
            return rep
        worklist.extend(ctx.alts)
    if one_path:
        rep.alts = []
        rep.any_feasible = any_feasible
        rep.wall = time.time() - t0
        return rep
    if not any_feasible and not rep.undecided_reason:
        rep.vacuous = True
        rep.undecided_reason = "VACUOUS: lemma hypotheses are contradictory"
    rep.wall = time.time() - t0
    return rep


def _worker(job):
    kind, key, modnames, tier = job
    try:
        sys.setrecursionlimit(20000)
        contracts = load_contracts(modnames)
        if kind == "fn":
            return verify_function(key, contracts, tier=tier).to_json()
        return verify_lemma(key, tier=tier).to_json()
    except Exception:
        return {"function": key, "status": "crash", "traceback": traceback.format_exc(), "obligations": [], "vcs": 0, "vcs_discharged": 0}


def run_jobs(jobs: list[tuple], nproc: int = 12) -> list[dict]:
    import multiprocessing as mp

    if len(jobs) <= 1 or nproc <= 1:
        return [_worker(j) for j in jobs]
    with mp.get_context("fork").Pool(min(nproc, len(jobs))) as pool:
        return pool.map(_worker, jobs, chunksize=1)


def merge_parts(key: str, parts: list[dict], *, is_lemma=False, truncated=None) -> dict:
    """Combines the per-path partial reports of one function into its report (parallel driver)."""
    out = None
    rank = {"proved": 0, "undecided": 1, "refuted": 2}
    obs: dict[str, dict] = {}
    any_feasible = False
    for p in parts:
        if p.get("status") == "crash":
            return p
        if out is None:
            out = {k: p.get(k) for k in ("function", "source_file", "source_lines", "bounded")}
            out.update(paths=0, paths_returning=0, paths_raising=0, vcs=0, vcs_discharged=0, solver_time_s=0.0, wall_s=0.0,
                       backends={}, inlined=set(), used_contracts=set(), used_models=set(), refuted=[], undecided_reason=None, abort_reasons=set())
        for k in ("paths", "paths_returning", "paths_raising", "vcs", "vcs_discharged"):
            out[k] += p.get(k, 0)
        out["solver_time_s"] += p.get("solver_time_s", 0.0)
        out["wall_s"] += p.get("wall_s", 0.0)
        for b, n in p.get("backends", {}).items():
            out["backends"][b] = out["backends"].get(b, 0) + n
        out["inlined"] |= set(p.get("inlined", []))
        out["used_contracts"] |= set(p.get("used_contracts", []))
        out["used_models"] |= set(p.get("used_models", []))
        out["abort_reasons"] |= set(p.get("abort_reasons", []))
        out["refuted"] += p.get("refuted", [])
        any_feasible = any_feasible or p.get("any_feasible", False)
        if p.get("undecided_reason") and not out["undecided_reason"]:
            out["undecided_reason"] = p["undecided_reason"]
        for o in p.get("obligations", []):
            a = obs.setdefault(o["name"], dict(o, vcs=0, time_s=0.0, backends=[], status="proved"))
            a["vcs"] += o["vcs"]
            a["time_s"] = round(a["time_s"] + o["time_s"], 4)
            for b in o.get("backends", []):
                if b not in a["backends"]:
                    a["backends"].append(b)
            if rank[o["status"]] > rank[a["status"]]:
                a["status"] = o["status"]
                if o.get("why"):
                    a["why"] = o["why"]
    if out is None:
        return {"function": key, "status": "crash", "traceback": "no partial report", "obligations": [], "vcs": 0, "vcs_discharged": 0}
    vac = False
    if truncated and not out["undecided_reason"]:
        out["undecided_reason"] = truncated
    if not any_feasible and not out["undecided_reason"]:
        vac = True
        out["undecided_reason"] = "VACUOUS: no feasible path satisfies the precondition"
    if out["paths_returning"] + out["paths_raising"] == 0 and not out["undecided_reason"]:
        vac = True
        out["undecided_reason"] = "VACUOUS: no explored path reaches an exit of the function (" + "; ".join(sorted(out["abort_reasons"])[:3]) + ")"
    out["obligations"] = list(obs.values())
    if any(o["status"] == "refuted" for o in obs.values()):
        st = "refuted"
    elif out["undecided_reason"] or any(o["status"] == "undecided" for o in obs.values()) or not obs or vac:
        st = "undecided"
    else:
        st = "proved"
    out["status"] = st
    out["vacuous"] = vac
    out["refuted"] = out["refuted"][:20]
    for k in ("inlined", "used_contracts", "used_models", "abort_reasons"):
        out[k] = sorted(out[k])
    out["solver_time_s"] = round(out["solver_time_s"], 3)
    out["wall_s"] = round(out["wall_s"], 3)
    return out
