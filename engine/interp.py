"""pyvc symbolic interpreter over the real Python AST of /repo/src.

The function under verification is re-read from its source file on every run.  Calls to
zorg functions that have a sidecar contract are replaced by the contract (assert requires,
havoc modifies, assume ensures); zorg functions without one are inlined; everything else
must be in the library-model table (engine/models.py) or be a pure builtin applied to
concrete arguments.  Anything else raises Unsupported => verdict "undecided".
"""
from __future__ import annotations

import ast
import builtins
import dataclasses
import enum
import importlib
import inspect
import os
import sys
import types
from typing import Any, Optional

import z3

from . import sym
from .ctx import Abort, Ctx, SpecError, Unsupported
from .sym import (
    BStr,
    Opaque,
    PyRaise,
    Rec,
    SDate,
    SEnum,
    SList,
    SMap,
    SOpt,
    SV,
    is_concrete,
    mk,
)

REPO_SRC = os.environ.get("ZORG_SRC", "/repo/src")
MAX_INLINE_DEPTH = 8
MAX_LOOP_ITERS = 70


# --------------------------------------------------------------------------------------
# source index
# --------------------------------------------------------------------------------------
class SourceIndex:
    """Parses module source files on demand (every run re-reads the working tree)."""

    def __init__(self):
        self.trees: dict[str, ast.Module] = {}
        self.funcs: dict[str, dict[str, ast.AST]] = {}
        self.files: dict[str, str] = {}

    def load(self, modname: str):
        if modname in self.trees:
            return self.trees[modname]
        mod = importlib.import_module(modname)
        path = getattr(mod, "__file__", None)
        if not path or not os.path.exists(path):
            raise Unsupported(f"no source for module {modname}")
        src = open(path).read()
        tree = ast.parse(src, filename=path)
        self.trees[modname] = tree
        self.files[modname] = path
        idx: dict[str, ast.AST] = {}

        def walk(body, prefix):
            for n in body:
                if isinstance(n, (ast.FunctionDef, ast.AsyncFunctionDef)):
                    q = prefix + n.name
                    # property setters etc. share names; keep the first getter
                    idx.setdefault(q, n)
                elif isinstance(n, ast.ClassDef):
                    idx[prefix + n.name] = n
                    walk(n.body, prefix + n.name + ".")

        walk(tree.body, "")
        self.funcs[modname] = idx
        return tree

    def find(self, modname: str, qualname: str) -> Optional[ast.AST]:
        self.load(modname)
        return self.funcs[modname].get(qualname)


SOURCES = SourceIndex()


class IFunc:
    """A function whose body is interpreted."""

    def __init__(self, modname, qualname, node, gl, closure=None, bound_self=None, is_spec=False):
        self.modname, self.qualname, self.node = modname, qualname, node
        self.gl = gl  # native module __dict__
        self.closure = closure
        self.bound_self = bound_self
        self.is_spec = is_spec

    @property
    def key(self):
        return f"{self.modname}:{self.qualname}"

    def bind(self, obj):
        return IFunc(self.modname, self.qualname, self.node, self.gl, self.closure, obj, self.is_spec)

    def __repr__(self):
        return f"IFunc<{self.key}>"


class BoundM:
    """Method of a builtin-like value (str, list, dict, date...)."""

    def __init__(self, obj, name):
        self.obj, self.name = obj, name


class NativeRef:
    """A native python object reached through module globals (class, function, module)."""

    def __init__(self, obj):
        self.obj = obj

    def __repr__(self):
        return f"NativeRef<{self.obj!r}>"


class NullLogger:
    """_LOGGER.*: effect-free, non-raising (assumption A-LOG)."""


class _Return(Exception):
    def __init__(self, v):
        self.v = v


class _Break(Exception):
    pass


class _Continue(Exception):
    pass


def is_zorg_module(name: Optional[str]) -> bool:
    return bool(name) and (name == "zorg" or name.startswith("zorg.") or name.startswith("contracts"))


EXC_CLASSES = {
    n: c for n, c in vars(builtins).items() if isinstance(c, type) and issubclass(c, BaseException)
}


def exc_matches(etype: str, handler_names: list[str]) -> bool:
    c = EXC_CLASSES.get(etype)
    for h in handler_names:
        hc = EXC_CLASSES.get(h)
        if h == etype:
            return True
        if c is not None and hc is not None and issubclass(c, hc):
            return True
    return False


class Env:
    def __init__(self, gl: dict, locals_: dict, closure: Optional["Env"] = None, func: Optional[IFunc] = None):
        self.gl = gl
        self.locals = locals_
        self.closure = closure
        self.func = func
        self.loop_ord = 0

    def lookup(self, name):
        e = self
        while e is not None:
            if name in e.locals:
                return e.locals[name]
            e = e.closure
        raise KeyError(name)


MISSING = object()


class Interp:
    def __init__(self, ctx: Ctx, contracts: dict, target_key: Optional[str] = None, models=None):
        self.ctx = ctx
        self.contracts = contracts
        self.target_key = target_key
        self.depth = 0
        self.spec_mode = 0
        from . import models as _models

        self.models = _models
        self.loopspecs: dict = {}
        self.call_log: list[str] = []
        self.old_env: Optional[dict] = None
        self.unbound_bases: set = set()
        self.stubs: dict = {}
        self.inline_keys: set = set()
        self.inlined: set[str] = set()
        self.used_contracts: set[str] = set()
        self.used_models: set[str] = set()

    # ---------------------------------------------------------------- functions
    def make_ifunc(self, modname: str, qualname: str, bound_self=None, is_spec=False) -> IFunc:
        node = SOURCES.find(modname, qualname)
        if node is None or not isinstance(node, ast.FunctionDef):
            raise Unsupported(f"source of {modname}:{qualname} not found")
        mod = importlib.import_module(modname)
        return IFunc(modname, qualname, node, mod.__dict__, None, bound_self, is_spec)

    def wrap_global(self, v, name=""):
        """Turns a native global into an interpreter value."""
        if isinstance(v, types.FunctionType) and getattr(v, "__module__", "") == "zorg.shared.common" and v.__name__ == "zprint":
            self.used_models.add("A-LOG: zprint prints a progress banner only (effect-free for the properties)")
            return _NULLFN
        if isinstance(v, types.FunctionType):
            # unwrap decorators that keep __wrapped__
            f = inspect.unwrap(v)
            if is_zorg_module(getattr(f, "__module__", None)) and "<locals>" not in f.__qualname__:
                try:
                    return self.make_ifunc(f.__module__, f.__qualname__, is_spec=f.__module__.startswith("contracts"))
                except Unsupported:
                    pass
            return NativeRef(v)
        if isinstance(v, (type, types.ModuleType, types.BuiltinFunctionType, types.MethodType)):
            return NativeRef(v)
        if type(v).__name__ == "Logger" or type(v).__module__.startswith("logrus"):
            return NullLogger()
        if isinstance(v, types.FunctionType) and v.__module__ == "zorg.shared.common" and v.__name__ == "zprint":
            self.used_models.add("A-LOG: zprint prints a progress banner only (effect-free for the properties)")
            return _NULLFN
        if callable(v) and not isinstance(v, (enum.Enum,)):
            return NativeRef(v)
        return v

    def bind_params(self, f: IFunc, args, kwargs, env_gl) -> dict:
        a = f.node.args
        params = [p.arg for p in a.posonlyargs + a.args]
        loc: dict[str, Any] = {}
        args = list(args)
        if f.bound_self is not None:
            args = [f.bound_self] + args
        if len(args) > len(params) and a.vararg is None:
            raise PyRaise("TypeError", f"too many positional arguments for {f.qualname}")
        for p, v in zip(params, args):
            loc[p] = v
        if a.vararg is not None:
            loc[a.vararg.arg] = tuple(args[len(params):])
        kwargs = dict(kwargs)
        kwonly = [p.arg for p in a.kwonlyargs]
        for k in list(kwargs):
            if k in params or k in kwonly:
                if k in loc:
                    raise PyRaise("TypeError", f"multiple values for {k}")
                loc[k] = kwargs.pop(k)
        if a.kwarg is not None:
            loc[a.kwarg.arg] = kwargs
        elif kwargs:
            raise PyRaise("TypeError", f"unexpected keyword arguments {list(kwargs)}")
        # defaults
        denv = Env(env_gl, {})
        ndef = len(a.defaults)
        for i, p in enumerate(params):
            if p not in loc:
                j = i - (len(params) - ndef)
                if j < 0:
                    raise PyRaise("TypeError", f"missing argument {p}")
                loc[p] = self.eval(a.defaults[j], denv)
        for p, d in zip(kwonly, a.kw_defaults):
            if p not in loc:
                if d is None:
                    raise PyRaise("TypeError", f"missing keyword-only argument {p}")
                loc[p] = self.eval(d, denv)
        return loc

    def call_ifunc(self, f: IFunc, args, kwargs, *, force_inline=False):
        key = f.key
        if not force_inline and key in self.stubs:
            # per-contract stub of a dependency (an assumed contract written as a model; listed in the evidence)
            st = self.stubs[key]
            self.used_models.add("STUB " + key.split(":")[-1] + ": " + " ".join((st.__doc__ or "assumed").split()))
            return st(self, args, kwargs)
        if key in self.inline_keys:
            force_inline = True
        if not force_inline and key in self.contracts and not f.is_spec:
            c = self.contracts[key]
            if c.get("opaque_call", True):
                return self.call_by_contract(f, c, args, kwargs)
        if f.is_spec and f.closure is None:
            nat = f.gl.get(f.qualname)
            if getattr(nat, "__pyvc_opaque__", None):
                return self.call_opaque(f, nat, args, kwargs)
        if self.depth >= MAX_INLINE_DEPTH:
            raise Unsupported(f"inline depth exceeded at {key}")
        if key == self.target_key and self.depth > 0:
            raise Unsupported(f"recursive call of {key} without a contract")
        loc = self.bind_params(f, args, kwargs, f.gl)
        env = Env(f.gl, loc, f.closure, f)
        self.depth += 1
        if not f.is_spec:
            self.inlined.add(key)
        saved_loops = self.loopspecs
        if self.depth > 1 or f.is_spec:
            self.loopspecs = {}
            c = self.contracts.get(key)
            if c and not f.is_spec:
                self.loopspecs = c.get("loops", {})
        was_spec = self.spec_mode
        if f.is_spec:
            self.spec_mode += 1
        try:
            self.exec_block(f.node.body, env)
            return None
        except _Return as r:
            return r.v
        finally:
            self.depth -= 1
            self.loopspecs = saved_loops
            self.spec_mode = was_spec

    def call_opaque(self, f: IFunc, nat, args, kwargs):
        """Spec function with a hidden definition.

        ret "int"|"bool"|"str": uninterpreted on unbounded strings, the definition on bounded/concrete
        ones, linked by the definitional instance UF(origin) == body(chars).
        ret "list:str"|"list:path": always uninterpreted (the definition is what the *other* function of
        a mutually recursive pair is verified against; see contracts/c18.py)."""
        ret = nat.__pyvc_opaque__
        ctx = self.ctx
        args = [mk(a) for a in args]
        args = [sym.force(ctx, a) if isinstance(a, SOpt) else a for a in args]
        terms: list = []
        sorts: list = []
        for a in args:
            if sym.is_strlike(a):
                terms.append(sym.zstr(a)); sorts.append(z3.StringSort())
            elif sym.is_boollike(a):
                terms.append(sym.zbool(a)); sorts.append(z3.BoolSort())
            elif sym.is_intlike(a):
                terms.append(sym.zint(a)); sorts.append(z3.IntSort())
            elif isinstance(a, SDate):
                terms.append(a.t); sorts.append(z3.IntSort())
            elif isinstance(a, (SList, list, tuple)):
                t = sym.list_term(ctx, a)
                terms.append(t); sorts.append(t.sort())
            elif isinstance(a, dict):
                m_ = sym.dict_to_smap(ctx, a, sym.TStr(), sym.TStr())
                terms += [m_.has, m_.val]; sorts += [m_.has.sort(), m_.val.sort()]
            elif isinstance(a, SMap):
                it = a.ident_term()
                if it is not None:
                    terms.append(it); sorts.append(it.sort())
                else:
                    terms += [a.has, a.val]; sorts += [a.has.sort(), a.val.sort()]
            elif isinstance(a, Rec) and a.cls_name == "Path":
                terms.append(sym.zstr(a.fields["s"])); sorts.append(z3.StringSort())
            elif isinstance(a, Opaque):
                terms.append(a.t); sorts.append(a.t.sort())
            elif isinstance(a, Rec) and a.fields and all(
                sym.is_strlike(mk(v)) or sym.is_intlike(mk(v)) or sym.is_boollike(mk(v)) or (isinstance(v, Rec) and v.cls_name == "Path")
                for v in a.fields.values()
            ):
                # a flat record (configuration object): the function depends on its fields, in field-name order
                for k_ in sorted(a.fields):
                    v = mk(a.fields[k_])
                    if isinstance(v, Rec):
                        terms.append(sym.zstr(v.fields["s"])); sorts.append(z3.StringSort())
                    elif sym.is_strlike(v):
                        terms.append(sym.zstr(v)); sorts.append(z3.StringSort())
                    elif sym.is_boollike(v):
                        terms.append(sym.zbool(v)); sorts.append(z3.BoolSort())
                    else:
                        terms.append(sym.zint(v)); sorts.append(z3.IntSort())
            else:
                raise Unsupported(f"opaque spec function argument {type(a).__name__}")
        reveal = getattr(self, "reveal", ())
        if f.qualname in reveal and getattr(self, "reveal_depth", 0) == 0:
            # one-level unfolding of the definition (the function whose contract *is* this definition)
            loc = self.bind_params(f, args, kwargs, f.gl)
            env = Env(f.gl, loc, None, f)
            self.depth += 1
            self.spec_mode += 1
            self.reveal_depth = 1
            try:
                try:
                    self.exec_block(f.node.body, env)
                    return None
                except _Return as r:
                    return r.v
            finally:
                self.depth -= 1
                self.spec_mode -= 1
                self.reveal_depth = 0
        if ret == "map":
            A = z3.ArraySort(z3.StringSort(), z3.BoolSort())
            B = z3.ArraySort(z3.StringSort(), z3.StringSort())
            fh = sym.ufun("spec_" + f.qualname + "_has", *sorts, A)
            fv = sym.ufun("spec_" + f.qualname + "_val", *sorts, B)
            return SMap(fh(*terms), fv(*terms), sym.TStr(), sym.TStr())
        if ret == "path":
            uf = sym.ufun("spec_" + f.qualname, *sorts, z3.StringSort())
            return Rec("Path", {"s": sym.sstr(uf(*terms))})
        if ret.startswith("list:"):
            ety = {"str": sym.TStr(), "path": sym.TPath(), "int": sym.TInt()}[ret[5:]]
            lty = sym.TListVal(ety)
            uf = sym.ufun("spec_" + f.qualname, *sorts, lty.sort())
            t = uf(*terms)
            for fact in lty.facts(t):
                ctx.assume(fact)
            return lty.wrap(t)
        rs = {"int": z3.IntSort(), "bool": z3.BoolSort(), "str": z3.StringSort()}[ret]
        uf = sym.ufun("spec_" + f.qualname, *sorts, rs)
        unbounded = [a for a in args if isinstance(a, (SV, SList, SMap)) and not sym.is_intlike(a) and not sym.is_boollike(a)]
        if unbounded or (getattr(nat, "__pyvc_opaque_always__", False) and not is_concrete(args)):
            return mk(SV(uf(*terms), ret))
        # bounded / concrete: the definition
        loc = self.bind_params(f, args, kwargs, f.gl)
        env = Env(f.gl, loc, None, f)
        self.depth += 1
        self.spec_mode += 1
        try:
            try:
                self.exec_block(f.node.body, env)
                val = None
            except _Return as r:
                val = r.v
        finally:
            self.depth -= 1
            self.spec_mode -= 1
        if any((isinstance(a, BStr) and a.origin is not None) or isinstance(a, str) for a in args):
            t = sym.truth_term(ctx, val) if ret == "bool" else (sym.zstr(val) if ret == "str" else sym.zint(val))
            t = z3.BoolVal(t) if isinstance(t, bool) else t
            ctx.assume(uf(*terms) == t)
        return val

    # ---------------------------------------------------------------- contracts at call sites
    def call_by_contract(self, f: IFunc, c: dict, args, kwargs):
        from .spec import eval_clause, havoc_paths, snapshot

        self.used_contracts.add(f.key)
        saved_reveal = getattr(self, "reveal", ())
        self.reveal = ()  # definitions are only unfolded in the target's own clauses
        try:
            return self._call_by_contract(f, c, args, kwargs)
        finally:
            self.reveal = saved_reveal

    def _call_by_contract(self, f: IFunc, c: dict, args, kwargs):
        from .spec import eval_clause, havoc_paths, snapshot

        loc = self.bind_params(f, args, kwargs, f.gl)
        cname = f.qualname
        for p, ty in c.get("args", {}).items():
            if isinstance(ty, sym.TBStr) and p in loc and isinstance(mk(loc[p]), SV):
                t = sym.zstr(loc[p])
                self.ctx.obligate(f"pre@{cname}/bounded/{p}", z3.And(z3.Length(t) >= ty.lo, z3.Length(t) <= ty.hi), kind="pre@call", detail=f"{ty.lo} <= len({p}) <= {ty.hi}")
                loc[p] = sym.coerce_to_bstr(self.ctx, loc[p], ty.lo, ty.hi)
        old = snapshot(loc)
        for name, clause in c.get("requires", {}).items():
            t = eval_clause(self, c, clause, loc, old, None)
            self.ctx.obligate(f"pre@{cname}/{name}", _as_term(t), kind="pre@call", detail=clause)
        # exceptional exits (exact: raised iff the condition holds, evaluated in the pre-state)
        for etype, clause in c.get("raises", {}).items():
            t = eval_clause(self, c, clause, loc, old, None)
            if self.ctx.branch(_as_term(t), f"{cname} raises {etype}"):
                raise PyRaise(etype, f"by contract of {cname}")
        saved_og = getattr(self, "old_ghost", None)
        self.old_ghost = _ghost_copy(self.ctx.ghost)
        skip = set(c.get("havoc_skip", ()))
        if c.get("effects"):
            # structural part of the callee's effect that havoc cannot express (e.g. appending a fresh object)
            c["effects"](self, loc, old)
        havoc_paths(self, {k: v for k, v in c.get("modifies", {}).items() if k not in skip}, loc)
        res = None
        rty = c.get("returns")
        if c.get("result_is"):
            # definitional contract: the result IS the value of a specification expression (no fresh symbol, no equation)
            res = eval_clause(self, c, c["result_is"], loc, old, None)
            rty = None
        if rty is not None:
            res = rty.fresh(self.ctx, f"{cname}.result")
            if isinstance(res, BStr):
                o = self.ctx.fresh(f"{cname}.result.s", z3.StringSort())
                self.ctx.assume(o == sym.zstr(res))
                res.origin = o
        if self.unbound_bases:
            for name, clause in c.get("ensures", {}).items():
                self._bind_plists(c, clause, loc, old, res)
            self.unbound_bases.clear()
        for name, clause in c.get("ensures", {}).items():
            t = eval_clause(self, c, clause, loc, old, res)
            self.ctx.assume(_as_term(t))
        self.old_ghost = saved_og
        if not self.ctx.feasible():
            raise Abort("callee postcondition infeasible")
        return res

    def _bind_plists(self, c, clause, loc, old, res):
        """An equation `L == E` in a positive conjunctive position of a postcondition (conjunct, consequent of an implication or
        branch of a conditional whose test is decided by case split) where L is an object list just havocked by `modifies`
        and E an object list over the pre-state defines L: the fresh prefix symbol of L is unconstrained, so L := E loses no
        post-state.  (Object lists hold heap objects, which have no term representation an equation could be stated over.)"""
        from .spec import parse_clause, _SpecFunc

        l = dict(loc)
        l["result"] = res
        env = Env(c["gl"], l)
        env.func = _SpecFunc(c)
        saved = self.old_env
        self.old_env = old
        self.spec_mode += 1

        def decided(test):
            t = sym.truth_term(self.ctx, self.eval(test, env))
            return t if isinstance(t, bool) else self.ctx.branch(t, "bind-guard")

        def go(n):
            if isinstance(n, ast.BoolOp) and isinstance(n.op, ast.And):
                for v in n.values:
                    if (isinstance(v, ast.Compare) and len(v.ops) == 1 and isinstance(v.ops[0], (ast.Is, ast.IsNot))
                            and isinstance(v.comparators[0], ast.Constant) and v.comparators[0].value is None):
                        if not decided(v):
                            return  # the conjunction is false on this path
                    else:
                        go(v)
            elif isinstance(n, ast.IfExp):
                go(n.body if decided(n.test) else n.orelse)
            elif isinstance(n, ast.Call) and isinstance(n.func, ast.Name) and n.func.id == "implies" and len(n.args) == 2:
                if decided(n.args[0]):
                    go(n.args[1])
            elif (isinstance(n, ast.Compare) and len(n.ops) == 1 and isinstance(n.ops[0], ast.Is) and isinstance(n.left, ast.Call)
                  and isinstance(n.left.func, ast.Name) and n.left.func.id == "plist_last" and len(n.left.args) == 1):
                # `plist_last(L) is E` for a havocked L: L is some unknown prefix followed by E
                a, b = self.eval(n.left.args[0], env), self.eval(n.comparators[0], env)
                b = sym.force(self.ctx, b) if isinstance(b, sym.SOpt) else b
                if isinstance(a, sym.PList) and a.base is not None and a.base.get_id() in self.unbound_bases and not a.tail and isinstance(b, sym.Rec):
                    self.unbound_bases.discard(a.base.get_id())
                    a.tail = [b]
            elif isinstance(n, ast.Compare) and len(n.ops) == 1 and isinstance(n.ops[0], ast.Eq):
                if not any(isinstance(x, ast.Call) and isinstance(x.func, ast.Name) and x.func.id == "plist_append" for x in ast.walk(n)):
                    return  # only `L == plist_append(old(L), e)` equations define a list
                a, b = self.eval(n.left, env), self.eval(n.comparators[0], env)
                if isinstance(a, sym.PList) and isinstance(b, sym.PList) and a is not b:
                    ua = a.base is not None and a.base.get_id() in self.unbound_bases and not a.tail
                    ub = b.base is not None and b.base.get_id() in self.unbound_bases and not b.tail
                    if ua and not ub:
                        self.unbound_bases.discard(a.base.get_id())
                        a.base, a.tail = b.base, list(b.tail)
                    elif ub and not ua:
                        self.unbound_bases.discard(b.base.get_id())
                        b.base, b.tail = a.base, list(a.tail)

        try:
            go(parse_clause(clause))
        except (PyRaise, SpecError) as e:
            if os.environ.get("PYVC_DEBUG"):
                print(f"[bind] {clause[:60]}: {e}", file=sys.stderr)
        finally:
            self.spec_mode -= 1
            self.old_env = saved

    # ---------------------------------------------------------------- statements
    def exec_block(self, stmts, env: Env):
        for s in stmts:
            self.exec(s, env)

    def exec(self, s, env: Env):
        m = getattr(self, "x_" + type(s).__name__, None)
        if m is None:
            raise Unsupported(f"statement {type(s).__name__} (line {getattr(s, 'lineno', '?')})")
        return m(s, env)

    def x_Expr(self, s, env):
        if isinstance(s.value, ast.Constant):
            return  # docstring
        self.eval(s.value, env)

    def x_Pass(self, s, env):
        pass

    def x_Delete(self, s, env):
        for t in s.targets:
            if isinstance(t, ast.Name):
                env.locals.pop(t.id, None)
            elif isinstance(t, ast.Subscript):
                base = self.eval(t.value, env)
                key = self.eval(t.slice, env)
                if isinstance(base, dict) and is_concrete(key):
                    if key in base:
                        del base[key]
                    else:
                        raise PyRaise("KeyError", repr(key))
                else:
                    raise Unsupported("del on symbolic container")
            else:
                raise Unsupported("del target")

    def x_Global(self, s, env):
        raise Unsupported("global statement")

    def x_Import(self, s, env):
        for a in s.names:
            env.locals[(a.asname or a.name).split(".")[0]] = NativeRef(importlib.import_module(a.name))

    def x_ImportFrom(self, s, env):
        mod = importlib.import_module(s.module)
        for a in s.names:
            env.locals[a.asname or a.name] = self.wrap_global(getattr(mod, a.name))

    def x_Return(self, s, env):
        raise _Return(self.eval(s.value, env) if s.value is not None else None)

    def x_Break(self, s, env):
        raise _Break()

    def x_Continue(self, s, env):
        raise _Continue()

    def x_Assign(self, s, env):
        v = self.eval(s.value, env)
        for t in s.targets:
            self.assign(t, v, env)

    def x_AnnAssign(self, s, env):
        if s.value is not None:
            self.assign(s.target, self.eval(s.value, env), env)

    def x_AugAssign(self, s, env):
        cur = self.eval(_load(s.target), env)
        v = self.eval(s.value, env)
        if isinstance(s.op, ast.Add) and isinstance(cur, list) and isinstance(v, (list, tuple)):
            cur.extend(v)
            return
        self.assign(s.target, sym.binop(self.ctx, type(s.op).__name__, cur, v), env)

    def assign(self, t, v, env: Env):
        if isinstance(t, ast.Name):
            env.locals[t.id] = v
        elif isinstance(t, (ast.Tuple, ast.List)):
            vals = self.iterate(v, env, what="unpacking")
            if any(isinstance(e, ast.Starred) for e in t.elts):
                raise Unsupported("starred unpacking")
            if len(vals) != len(t.elts):
                raise PyRaise("ValueError", f"unpack: expected {len(t.elts)} values, got {len(vals)}")
            for e, x in zip(t.elts, vals):
                self.assign(e, x, env)
        elif isinstance(t, ast.Attribute):
            obj = sym.force(self.ctx, self.eval(t.value, env))
            if obj is None:
                raise PyRaise("AttributeError", f"'NoneType' object has no attribute '{t.attr}'")
            if isinstance(obj, Rec):
                obj.fields[t.attr] = v
            else:
                raise Unsupported(f"attribute store on {type(obj).__name__}")
        elif isinstance(t, ast.Subscript):
            obj = sym.force(self.ctx, self.eval(t.value, env))
            idx = self.eval(t.slice, env)
            self.store_subscript(obj, idx, v)
        else:
            raise Unsupported(f"assignment target {type(t).__name__}")

    def store_subscript(self, obj, idx, v):
        idx = mk(idx)
        if isinstance(idx, SOpt):
            idx = sym.force(self.ctx, idx)
        if isinstance(obj, dict):
            if is_concrete(idx):
                obj[idx] = v
                return
            # symbolic key into python dict: only when it must equal an existing key
            for k in obj:
                kk = k.v if isinstance(k, _SymKey) else k
                t = sym.eq_term(self.ctx, idx, kk)
                if t is False:
                    continue
                if t is True or self.ctx.branch(_as_term(t), "key equals an existing key"):
                    obj[k] = v
                    return
            if sym.is_strlike(idx):
                # a new key, distinct from every existing one on this path (insertion order is kept by the Python dict)
                obj[_SymKey(idx)] = v
                return
            raise Unsupported("store with symbolic key into dict")
        if isinstance(obj, list):
            if isinstance(idx, slice):
                if is_concrete(idx.start) and is_concrete(idx.stop) and isinstance(v, list):
                    obj[idx] = v
                    return
                raise Unsupported("slice store")
            if isinstance(idx, int):
                try:
                    obj[idx] = v
                except IndexError as e:
                    raise PyRaise("IndexError", str(e))
                return
            i = sym._norm_index(self.ctx, idx, len(obj))
            for k in range(len(obj)):
                if self.ctx.branch(sym.zint(i) == k, f"idx=={k}"):
                    obj[k] = v
                    return
            raise Abort("unreachable")
        if isinstance(obj, SList):
            i = sym._norm_index(self.ctx, idx, obj.length)
            obj.arr = z3.Store(obj.arr, sym.zint(i), obj.ety.unwrap(self.ctx, v))
            return
        if isinstance(obj, SMap):
            k = obj.kty.unwrap(self.ctx, idx)
            obj.has = z3.Store(obj.has, k, True)
            obj.val = z3.Store(obj.val, k, obj.vty.unwrap(self.ctx, v))
            return
        raise Unsupported(f"subscript store on {type(obj).__name__}")

    def x_If(self, s, env):
        if self.truth(self.eval(s.test, env), f"if@{s.lineno}"):
            self.exec_block(s.body, env)
        else:
            self.exec_block(s.orelse, env)

    def x_Assert(self, s, env):
        if not self.truth(self.eval(s.test, env), f"assert@{s.lineno}"):
            raise PyRaise("AssertionError", f"line {s.lineno}")

    def x_Raise(self, s, env):
        if s.exc is None:
            raise Unsupported("bare raise")
        e = s.exc
        name = None
        if isinstance(e, ast.Call) and isinstance(e.func, ast.Name):
            name = e.func.id
            # evaluate arguments for their exceptions/side effects? messages are effect-free f-strings
        elif isinstance(e, ast.Name):
            name = e.id
            v = env.locals.get(name)
            if isinstance(v, PyRaise):
                raise v
        if name is None:
            raise Unsupported("raise of a computed exception")
        raise PyRaise(name, f"line {s.lineno}", node=s)

    def x_Try(self, s, env):
        if s.finalbody:
            raise Unsupported("try/finally")
        try:
            self.exec_block(s.body, env)
        except PyRaise as e:
            for h in s.handlers:
                names = _handler_names(h)
                if names is None or exc_matches(e.etype, names):
                    if h.name:
                        env.locals[h.name] = e
                    self.exec_block(h.body, env)
                    return
            raise
        else:
            self.exec_block(s.orelse, env)

    def x_With(self, s, env):
        for item in s.items:
            v = self.eval(item.context_expr, env)
            enter = self.models.with_enter(self, v)
            if item.optional_vars is not None:
                self.assign(item.optional_vars, enter, env)
        self.exec_block(s.body, env)

    def x_FunctionDef(self, s, env):
        f = IFunc(env.func.modname if env.func else "?", (env.func.qualname + ".<locals>." if env.func else "") + s.name, s, env.gl, env, None, env.func.is_spec if env.func else False)
        env.locals[s.name] = f

    # ---- loops
    def _loopspec(self, env):
        o = env.loop_ord
        env.loop_ord += 1
        return o, (self.loopspecs.get(o) if self.depth <= 1 or True else None)

    def x_While(self, s, env):
        o, spec = self._next_loop(s, env)
        if spec and spec.get("invariant"):
            return self._loop_inv(s, env, o, spec, None)
        n = 0
        broke = False
        while self.truth(self.eval(s.test, env), f"while@{s.lineno}#{n}"):
            n += 1
            if n > MAX_LOOP_ITERS:
                raise Unsupported(f"loop at line {s.lineno} exceeded {MAX_LOOP_ITERS} unrollings (needs an invariant)")
            try:
                self.exec_block(s.body, env)
            except _Break:
                broke = True
                break
            except _Continue:
                continue
        if not broke:
            self.exec_block(s.orelse, env)

    def _next_loop(self, s, env):
        # loop ordinal = position of this loop node among the loops of the function, in source order
        f = env.func
        if f is None:
            return -1, None
        ords = getattr(f.node, "_loop_ords", None)
        if ords is None:
            ords = {}
            k = 0
            for n in ast.walk(f.node):
                pass
            for n in _loops_in_order(f.node):
                ords[id(n)] = k
                k += 1
            f.node._loop_ords = ords
        o = ords.get(id(s), -1)
        spec = None
        if f.key == self.target_key and self.depth == 1:
            spec = self.loopspecs.get(o)
        elif self.loopspecs:
            spec = self.loopspecs.get(o)
        return o, spec

    def x_For(self, s, env):
        o, spec = self._next_loop(s, env)
        it = self.eval(s.iter, env)
        it = sym.force(self.ctx, it)
        if spec and spec.get("invariant") and getattr(self, "list_bound", None) is None:
            return self._loop_inv(s, env, o, spec, it)
        if isinstance(it, SList) and not isinstance(mk(it.length), int) and getattr(self, "list_bound", None) is None:
            raise Unsupported(f"for-loop over a symbolic-length list at line {s.lineno} needs an invariant")
        items = self.iterate(it, env, what="for")
        broke = False
        for n, x in enumerate(items):
            if n > 400:
                raise Unsupported("for loop too long")
            self.assign(s.target, x, env)
            try:
                self.exec_block(s.body, env)
            except _Break:
                broke = True
                break
            except _Continue:
                continue
        if not broke:
            self.exec_block(s.orelse, env)

    def _loop_inv(self, s, env, o, spec, it):
        """Inductive-invariant treatment of a loop with symbolic trip count."""
        from .spec import eval_clause_env, havoc_locals

        ctx = self.ctx
        fname = env.func.qualname if env.func else "?"
        idx_name = spec.get("index", f"_i{o}")
        is_for = isinstance(s, ast.For)
        if is_for:
            if not isinstance(it, SList):
                it = sym.to_slist(ctx, it, spec.get("elem_ty"))
            env.locals[idx_name] = 0
            env.locals["_it%d" % o] = it
        _check_loop_frame(s, spec, env, idx_name)
        invs = spec["invariant"]
        for name, clause in invs.items():
            t = eval_clause_env(self, clause, env)
            ctx.obligate(f"{fname}/loop{o}/init/{name}", _as_term(t), kind="invariant-init", detail=clause)
        # arbitrary iteration
        havoc_locals(self, spec.get("modifies", {}), env)
        if is_for:
            iv = ctx.fresh(f"{idx_name}", z3.IntSort())
            ctx.assume(z3.And(iv >= 0, iv <= sym.zint(it.length)))
            env.locals[idx_name] = SV(iv, "int")
        for name, clause in invs.items():
            ctx.assume(_as_term(eval_clause_env(self, clause, env)))
        dec0 = None
        if spec.get("decreases"):
            dec0 = sym.zint(eval_clause_env(self, spec["decreases"], env))
        if is_for:
            cond = sym.zint(env.locals[idx_name]) < sym.zint(it.length)
            go = ctx.branch(cond, f"for@{s.lineno} continues")
        else:
            go = self.truth(self.eval(s.test, env), f"while@{s.lineno} continues")
        if not go:
            self.exec_block(s.orelse, env)
            return
        if is_for:
            i = env.locals[idx_name]
            self.assign(s.target, sym.mk_elem(it.ety, z3.Select(it.arr, sym.zint(i))), env)
        try:
            self.exec_block(s.body, env)
        except _Continue:
            pass
        except _Break:
            # leaves the loop with the current state; post-loop code continues on this path
            return
        if is_for:
            env.locals[idx_name] = sym.sint(sym.zint(env.locals[idx_name]) + 1)
        for name, clause in invs.items():
            t = eval_clause_env(self, clause, env)
            ctx.obligate(f"{fname}/loop{o}/step/{name}", _as_term(t), kind="invariant-step", detail=clause)
        if dec0 is not None:
            dec1 = sym.zint(eval_clause_env(self, spec["decreases"], env))
            ctx.obligate(f"{fname}/loop{o}/decreases", z3.And(dec0 >= 0, dec1 < dec0), kind="invariant-step", detail=spec["decreases"])
        raise Abort("end of inductive step")

    # ---------------------------------------------------------------- expressions
    def truth(self, v, note=""):
        return sym.truth(self.ctx, v, note)

    def eval(self, e, env: Env):
        m = getattr(self, "e_" + type(e).__name__, None)
        if m is None:
            raise Unsupported(f"expression {type(e).__name__} (line {getattr(e, 'lineno', '?')})")
        return m(e, env)

    def e_Constant(self, e, env):
        return e.value

    def e_Name(self, e, env):
        try:
            return env.lookup(e.id)
        except KeyError:
            pass
        from . import spec as _spec

        if e.id in _spec.PRIMS and (self.spec_mode or (env.func is not None and env.func.is_spec)):
            return _spec.PRIMS[e.id]
        if e.id in env.gl:
            return self.wrap_global(env.gl[e.id], e.id)
        if hasattr(builtins, e.id):
            return NativeRef(getattr(builtins, e.id))
        if e.id in _spec.PRIMS:
            return _spec.PRIMS[e.id]
        raise PyRaise("NameError", e.id)

    def e_NamedExpr(self, e, env):
        v = self.eval(e.value, env)
        env.locals[e.target.id] = v
        return v

    def e_Tuple(self, e, env):
        return tuple(self._elts(e.elts, env))

    def e_List(self, e, env):
        return list(self._elts(e.elts, env))

    def e_Set(self, e, env):
        vals = self._elts(e.elts, env)
        if is_concrete(vals):
            return set(vals)
        return _SymSet(vals)

    def _elts(self, elts, env):
        out = []
        for x in elts:
            if isinstance(x, ast.Starred):
                out.extend(self.iterate(self.eval(x.value, env), env))
            else:
                out.append(self.eval(x, env))
        return out

    def e_Dict(self, e, env):
        d = {}
        for k, v in zip(e.keys, e.values):
            if k is None:
                sub = self.eval(v, env)
                if not isinstance(sub, dict):
                    raise Unsupported("** of non-dict")
                d.update(sub)
            else:
                kk = self.eval(k, env)
                if not is_concrete(kk):
                    raise Unsupported("dict literal with symbolic key")
                d[kk] = self.eval(v, env)
        return d

    def e_JoinedStr(self, e, env):
        r: Any = ""
        for part in e.values:
            if isinstance(part, ast.Constant):
                r = sym.str_concat(r, part.value)
            else:
                if part.format_spec is not None or part.conversion not in (-1, 115):
                    v = self.eval(part.value, env)
                    if is_concrete(v):
                        spec = self.eval(part.format_spec, env) if part.format_spec is not None else ""
                        conv = {-1: "", 115: "!s", 114: "!r", 97: "!a"}[part.conversion]
                        r = sym.str_concat(r, ("{" + conv + (":" + spec if spec else "") + "}").format(v))
                        continue
                    raise Unsupported("format spec on symbolic value")
                r = sym.str_concat(r, self.to_str(self.eval(part.value, env)))
        return r

    def to_str(self, v):
        v = mk(v)
        if sym.is_strlike(v):
            return v
        if is_concrete(v):
            return str(v)
        if isinstance(v, SV) and v.kind == "int":
            # str(int): z3 int.to.str is only defined for non-negatives
            if self.ctx.branch(v.t >= 0, "int>=0 for str()"):
                return sym.sstr(z3.IntToStr(v.t))
            return sym.sstr(z3.Concat(z3.StringVal("-"), z3.IntToStr(-v.t)))
        if isinstance(v, SEnum):
            raise Unsupported("str() of symbolic enum")
        return self.models.to_str(self, v)

    def e_BinOp(self, e, env):
        a = self.eval(e.left, env)
        b = self.eval(e.right, env)
        a, b = sym.force(self.ctx, a) if isinstance(a, SOpt) else a, sym.force(self.ctx, b) if isinstance(b, SOpt) else b
        r = self.models.binop(self, type(e.op).__name__, a, b)
        if r is not MISSING:
            return r
        if getattr(self, "list_bound", None) is not None and isinstance(e.op, ast.Add):
            # bounded-symbolic tier: lists always have a concrete length (quantifier-free obligations)
            if isinstance(a, SList) and isinstance(b, (SList, list)):
                a = self.iterate(a)
            if isinstance(b, SList) and isinstance(a, list):
                b = self.iterate(b)
        return sym.binop(self.ctx, type(e.op).__name__, a, b)

    def e_UnaryOp(self, e, env):
        return sym.unop(self.ctx, type(e.op).__name__, self.eval(e.operand, env))

    def e_BoolOp(self, e, env):
        is_and = isinstance(e.op, ast.And)
        if self.spec_mode:
            terms = []
            for i, x in enumerate(e.values):
                if terms:
                    cp = self.ctx.checkpoint()
                    try:
                        v = self.eval(x, env)
                        self.ctx.commit(cp)
                    except (PyRaise, SpecError):
                        # not evaluable unless the earlier operands hold/fail: they are real guards -> case split
                        self.ctx.rollback(cp)
                        g = z3.And(*terms) if is_and else z3.Or(*terms)
                        if self.ctx.branch(g, f"guard@{e.lineno}") != is_and:
                            return not is_and
                        terms = []
                        v = self.eval(x, env)
                else:
                    v = self.eval(x, env)
                t = sym.truth_term(self.ctx, v)
                if isinstance(t, bool):
                    if t != is_and:
                        return t  # short-circuit: False in and / True in or
                    continue
                if _is_none_test(x):
                    # a None guard short-circuits for real: the later operands may dereference it
                    if self.ctx.branch(t, f"guard@{e.lineno}") != is_and:
                        return not is_and
                    continue
                terms.append(t)
                # keep evaluating the rest purely; guards like `i < n and xs[i]` rely on total ops
            if not terms:
                return is_and
            return sym.sbool(z3.And(*terms) if is_and else z3.Or(*terms))
        v = None
        for i, x in enumerate(e.values):
            v = self.eval(x, env)
            if i == len(e.values) - 1:
                return v
            t = self.truth(v, f"boolop@{e.lineno}.{i}")
            if t != is_and:
                return v
        return v

    def e_IfExp(self, e, env):
        c = self.eval(e.test, env)
        if self.spec_mode:
            t = sym.truth_term(self.ctx, c)
            if isinstance(t, bool):
                return self.eval(e.body if t else e.orelse, env)
            cp = self.ctx.checkpoint()
            try:
                a = self.eval(e.body, env)
                b = self.eval(e.orelse, env)
            except (PyRaise, SpecError):
                # a branch is not evaluable unconditionally: the test is a real guard -> case split
                self.ctx.rollback(cp)
                return self.eval(e.body if self.ctx.branch(t, f"ifexp@{e.lineno}") else e.orelse, env)
            if _heapish(a) or _heapish(b):
                # objects are not merged (identity matters): case split
                self.ctx.rollback(cp)
                return self.eval(e.body if self.ctx.branch(t, f"ifexp@{e.lineno}") else e.orelse, env)
            self.ctx.commit(cp)
            return _ite(self.ctx, t, a, b)
        if self.truth(c, f"ifexp@{e.lineno}"):
            return self.eval(e.body, env)
        return self.eval(e.orelse, env)

    def e_Compare(self, e, env):
        left = self.eval(e.left, env)
        acc = None
        for op, rhs in zip(e.ops, e.comparators):
            right = self.eval(rhs, env)
            t = self.compare(type(op).__name__, left, right)
            if len(e.ops) == 1:
                return t
            tt = sym.truth_term(self.ctx, t)
            if self.spec_mode:
                acc = tt if acc is None else _and(acc, tt)
                if acc is False:
                    return False
            else:
                if not self.ctx.branch(_as_term(tt), f"cmp@{e.lineno}"):
                    return False
                acc = True
            left = right
        return mk(SV(acc, "bool")) if not isinstance(acc, bool) else acc

    def _user_eq(self, a, b):
        """`a == b` for an object whose class defines __eq__ in the repository source (e.g. Note: body and payload only):
        the method's real body decides, not the structural dataclass equality.  `!=` is its negation (Python's default __ne__)."""
        a2 = sym.force(self.ctx, a) if isinstance(a, SOpt) else a
        if not (isinstance(a2, Rec) and a2.cls is not None and is_zorg_module(getattr(a2.cls, "__module__", None))):
            return None
        for k in a2.cls.__mro__:
            if "__eq__" in vars(k):
                if not is_zorg_module(getattr(k, "__module__", None)) or SOURCES.find(k.__module__, f"{k.__qualname__}.__eq__") is None:
                    return None  # generated (dataclass) or inherited from object
                f = self.make_ifunc(k.__module__, f"{k.__qualname__}.__eq__")
                return self.call(f, [a2, b], {}, None, None)
        return None

    def compare(self, op, a, b):
        ctx = self.ctx
        r = self.models.compare(self, op, a, b)
        if r is not MISSING:
            return r
        if op in ("Is", "IsNot"):
            a2, b2 = mk(a), mk(b)
            if b2 is None or a2 is None:
                t = sym.eq_term(ctx, a2, b2)
            elif isinstance(a2, bool) or isinstance(b2, bool) or isinstance(a2, (SV, SEnum, enum.Enum)) or isinstance(b2, (SEnum, enum.Enum)):
                t = sym.eq_term(ctx, a2, b2)
            else:
                # identity of heap objects: an Optional operand is resolved first (None is identical to nothing but None)
                if isinstance(a2, SOpt):
                    a2 = sym.force(ctx, a2)
                if isinstance(b2, SOpt):
                    b2 = sym.force(ctx, b2)
                t = a2 is b2
            return _not(t) if op == "IsNot" else _wrapb(t)
        if op in ("Eq", "NotEq"):
            ueq = self._user_eq(a, b)
            if ueq is not None:
                t = sym.truth_term(ctx, ueq)
                return _not(t) if op == "NotEq" else _wrapb(t)
            t = sym.eq_term(ctx, a, b)
            return _not(t) if op == "NotEq" else _wrapb(t)
        if op in ("Lt", "LtE", "Gt", "GtE"):
            if isinstance(a, SOpt):
                a = sym.force(ctx, a)
            if isinstance(b, SOpt):
                b = sym.force(ctx, b)
            return _wrapb(sym.lt_term(ctx, a, b, op))
        if op in ("In", "NotIn"):
            if isinstance(b, SOpt):
                b = sym.force(ctx, b)
            if isinstance(a, SOpt):
                a = sym.force(ctx, a)
            if isinstance(b, _SymSet):
                b = b.items
            t = sym.contains_term(ctx, a, b)
            return _not(t) if op == "NotIn" else _wrapb(t)
        raise Unsupported(f"compare {op}")

    def e_Subscript(self, e, env):
        v = self.eval(e.value, env)
        idx = self.eval(e.slice, env)
        r = self.models.subscript(self, v, idx)
        if r is not MISSING:
            return r
        if isinstance(v, NativeRef):
            # typing subscripts: dict[str, str], Optional[X] ... (annotations / cast arguments)
            def unw(x):
                if isinstance(x, NativeRef):
                    return x.obj
                if isinstance(x, tuple):
                    return tuple(unw(y) for y in x)
                return x

            try:
                return NativeRef(v.obj[unw(idx)])
            except Exception as e:
                raise Unsupported(f"subscript of native object {v.obj!r}: {e}")
        if self.spec_mode and not isinstance(idx, slice):
            # specifications use total selection on symbolic containers (guards are the clause's business)
            if isinstance(v, SMap):
                return sym.mk_elem(v.vty, z3.Select(v.val, v.kty.unwrap(self.ctx, idx)), self.ctx)
            if isinstance(v, SList) and (isinstance(mk(idx), SV) or (isinstance(mk(idx), int) and mk(idx) >= 0)):
                return sym.mk_elem(v.ety, z3.Select(v.arr, sym.zint(idx)), self.ctx)
        return sym.subscript(self.ctx, v, idx)

    def e_Slice(self, e, env):
        return slice(
            self.eval(e.lower, env) if e.lower is not None else None,
            self.eval(e.upper, env) if e.upper is not None else None,
            self.eval(e.step, env) if e.step is not None else None,
        )

    def e_Lambda(self, e, env):
        fd = ast.FunctionDef(name="<lambda>", args=e.args, body=[ast.Return(value=e.body)], decorator_list=[], lineno=e.lineno, col_offset=e.col_offset)
        ast.fix_missing_locations(fd)
        return IFunc(env.func.modname if env.func else "?", (env.func.qualname if env.func else "?") + ".<lambda>", fd, env.gl, env, None, bool(self.spec_mode) or (env.func.is_spec if env.func else False))

    def e_Attribute(self, e, env):
        obj = self.eval(e.value, env)
        return self.getattr(obj, e.attr)

    def getattr(self, obj, name):
        ctx = self.ctx
        if isinstance(obj, SOpt):
            obj = sym.force(ctx, obj)
        if obj is None:
            raise PyRaise("AttributeError", f"'NoneType' object has no attribute '{name}'")
        r = self.models.getattr(self, obj, name)
        if r is not MISSING:
            return r
        if isinstance(obj, Rec):
            if name in obj.fields:
                return obj.fields[name]
            if obj.cls is not None:
                return self.class_attr(obj, obj.cls, name)
            raise PyRaise("AttributeError", f"{obj.cls_name}.{name}")
        if isinstance(obj, NullLogger):
            return _NULLFN
        if isinstance(obj, NativeRef):
            o = obj.obj
            if isinstance(o, type) and dataclasses.is_dataclass(o) and False:
                pass
            try:
                v = getattr(o, name)
            except AttributeError:
                raise PyRaise("AttributeError", f"{o!r}.{name}")
            return self.wrap_global(v, name)
        if isinstance(obj, (str, BStr, list, dict, tuple, set, SList, SMap, SDate, _SymSet, sym.PList)) or (isinstance(obj, SV)):
            return BoundM(obj, name)
        if isinstance(obj, SEnum):
            if name == "value":
                return self.enum_attr(obj, lambda m: m.value)
            if name == "name":
                return self.enum_attr(obj, lambda m: m.name)
            # methods/properties defined on the enum class
            return self.class_attr(obj, obj.cls, name)
        if isinstance(obj, enum.Enum):
            # concrete member: interpret zorg-defined methods/properties, read plain attributes natively
            cls = type(obj)
            if name not in ("value", "name") and is_zorg_module(cls.__module__):
                try:
                    return self.class_attr(obj, cls, name)
                except Unsupported:
                    pass
            return self.wrap_global(getattr(obj, name), name)
        if isinstance(obj, IFunc):
            raise Unsupported(f"attribute {name} of function")
        if is_concrete(obj):
            try:
                v = getattr(obj, name)
            except AttributeError:
                raise PyRaise("AttributeError", f"{type(obj).__name__}.{name}")
            if callable(v):
                return BoundM(obj, name) if not isinstance(v, type) else NativeRef(v)
            return v
        raise Unsupported(f"attribute {name} on {type(obj).__name__}")

    def enum_attr(self, obj: SEnum, fn):
        for i, m in enumerate(obj.cls):
            if self.ctx.branch(obj.t == i, f"enum=={m.name}"):
                return fn(m)
        raise Abort("enum out of range")

    def class_attr(self, obj, cls, name):
        for k in cls.__mro__:
            if name in k.__dict__:
                a = k.__dict__[name]
                if isinstance(a, property):
                    f = inspect.unwrap(a.fget)
                    if is_zorg_module(f.__module__):
                        return self.call_ifunc(self.make_ifunc(f.__module__, f.__qualname__), [obj], {})
                    raise Unsupported(f"native property {name}")
                if isinstance(a, (staticmethod, classmethod)):
                    f = a.__func__
                    fi = self.make_ifunc(f.__module__, f.__qualname__)
                    return fi if isinstance(a, staticmethod) else fi.bind(NativeRef(cls))
                if isinstance(a, types.FunctionType):
                    f = inspect.unwrap(a)
                    if is_zorg_module(f.__module__):
                        return self.make_ifunc(f.__module__, f.__qualname__, bound_self=obj)
                    raise Unsupported(f"native method {cls.__name__}.{name}")
                return self.wrap_global(a, name)
        raise PyRaise("AttributeError", f"{cls.__name__}.{name}")

    # ---- comprehensions
    def _comp(self, generators, env, emit):
        def rec(gi, cenv):
            if gi == len(generators):
                emit(cenv)
                return
            g = generators[gi]
            itv = self.eval(g.iter, cenv)
            for x in self.iterate(itv, cenv, what="comprehension"):
                self.assign(g.target, x, cenv)
                ok = True
                for cond in g.ifs:
                    if not self.truth(self.eval(cond, cenv), f"comp-if@{cond.lineno}"):
                        ok = False
                        break
                if ok:
                    rec(gi + 1, cenv)

        rec(0, Env(env.gl, {}, env, env.func))

    def e_ListComp(self, e, env):
        out = []
        self._comp(e.generators, env, lambda ce: out.append(self.eval(e.elt, ce)))
        return out

    def e_GeneratorExp(self, e, env):
        return self.e_ListComp(e, env)

    def e_SetComp(self, e, env):
        out = self.e_ListComp(e, env)
        if is_concrete(out):
            return set(out)
        return _SymSet(out)

    def e_DictComp(self, e, env):
        out = {}

        def emit(ce):
            k = self.eval(e.key, ce)
            if not is_concrete(k):
                self.store_subscript(out, k, self.eval(e.value, ce))  # case split: equal to an earlier key (overwrites) or new
                return
            out[k] = self.eval(e.value, ce)

        self._comp(e.generators, env, emit)
        return out

    def iterate(self, v, env=None, what="iteration") -> list:
        v = sym.force(self.ctx, v) if isinstance(v, SOpt) else v
        if isinstance(v, (list, tuple)):
            return list(v)
        if isinstance(v, str):
            return list(v)
        if isinstance(v, BStr):
            return [mk(BStr([c])) for c in v.chars]
        if isinstance(v, dict):
            return list(v.keys())
        if isinstance(v, (set, frozenset)):
            try:
                return sorted(v)
            except TypeError:
                return list(v)
        if isinstance(v, _SymSet):
            # a set holds each value once: an element equal to an earlier one is dropped (case split on the equality) - strings and
            # paths only; other element kinds keep the old behaviour (no duplicates assumed is NOT made: they are iterated as written)
            out: list = []
            for it in v.items:
                dup = False
                for o in out:
                    a_, b_ = mk(it), mk(o)
                    if isinstance(a_, Rec) and isinstance(b_, Rec) and a_.cls_name == b_.cls_name == "Path":
                        a_, b_ = a_.fields["s"], b_.fields["s"]
                    if sym.is_strlike(mk(a_)) and sym.is_strlike(mk(b_)):
                        t = sym.eq_term(self.ctx, a_, b_)
                        if t is True or (t is not False and self.ctx.branch(t, "set: element equal to an earlier one")):
                            dup = True
                            break
                if not dup:
                    out.append(it)
            return out
        if isinstance(v, (range, enumerate, zip, map, filter, types.GeneratorType)) or hasattr(v, "__next__"):
            return list(v)
        if isinstance(v, _DictView):
            return v.items()
        if isinstance(v, SV) and v.kind == "str":
            # a string whose length is pinned by the path condition is iterated character by character
            n = self._pinned_length(v)
            if n is not None:
                return self.iterate(sym.coerce_to_bstr(self.ctx, v, n, n), env, what)
            raise Unsupported(f"{what} over an unbounded symbolic string")
        if isinstance(v, SList):
            n = mk(v.length)
            if isinstance(n, int):
                return [sym.mk_elem(v.ety, z3.Select(v.arr, i), self.ctx) for i in range(n)]
            bound = getattr(self, "list_bound", None)
            if bound is None:
                raise Unsupported(f"{what} over a symbolic-length list")
            # bounded-symbolic tier: case split on the length up to the stated bound, longer lists are cut
            self.bounded_cut = True
            ln = sym.zint(n)
            self.ctx.assume(ln <= bound)
            k = 0
            while k < bound:
                if self.ctx.branch(ln == k, f"len=={k}"):
                    break
                k += 1
            return [sym.mk_elem(v.ety, z3.Select(v.arr, i), self.ctx) for i in range(k)]
        r = self.models.iterate(self, v)
        if r is not MISSING:
            return r
        if is_concrete(v) and hasattr(v, "__iter__"):
            return list(v)
        raise Unsupported(f"{what} over {type(v).__name__}")

    def _pinned_length(self, v: SV, limit: int = 24):
        ctx = self.ctx
        ln = z3.Length(v.t)
        s2 = z3.Solver()
        s2.set("timeout", 2000)
        for a in ctx._slice([ln >= 0]) if len(ctx.pc) > 8 else ctx.pc:
            s2.add(a)
        if s2.check() != z3.sat:
            return None
        n = s2.model().eval(ln, model_completion=True)
        if not z3.is_int_value(n) or n.as_long() > limit:
            return None
        n = n.as_long()
        return n if ctx.must(ln == n) else None

    # ---- calls
    def e_Call(self, e, env):
        if (self.spec_mode and isinstance(e.func, ast.Name) and e.func.id == "old"
                and not _defined(env, "old")):
            if self.old_env is None:
                raise SpecError("old() outside a postcondition")
            l = dict(env.locals)
            l.update(self.old_env)
            oe = Env(env.gl, l, env.closure, env.func)
            g = self.ctx.ghost
            if getattr(self, "old_ghost", None) is not None:
                self.ctx.ghost = self.old_ghost
            try:
                return self.eval(e.args[0], oe)
            finally:
                self.ctx.ghost = g
        if self.spec_mode and isinstance(e.func, ast.Name) and e.func.id == "implies" and len(e.args) == 2 and not _defined(env, "implies"):
            ta = sym.truth_term(self.ctx, self.eval(e.args[0], env))
            if isinstance(ta, bool):
                if not ta:
                    return True
                tb = sym.truth_term(self.ctx, self.eval(e.args[1], env))
                return tb if isinstance(tb, bool) else sym.sbool(tb)
            cp = self.ctx.checkpoint()
            try:
                tb = sym.truth_term(self.ctx, self.eval(e.args[1], env))
                self.ctx.commit(cp)
            except (PyRaise, SpecError):
                self.ctx.rollback(cp)
                if not self.ctx.branch(ta, f"implies@{e.lineno}"):
                    return True
                tb = sym.truth_term(self.ctx, self.eval(e.args[1], env))
                return tb if isinstance(tb, bool) else sym.sbool(tb)
            if isinstance(tb, bool):
                return True if tb else sym.sbool(z3.Not(ta))
            return sym.sbool(z3.Implies(ta, tb))
        fn = self.eval(e.func, env)
        if (isinstance(fn, NativeRef) and fn.obj in (all, any) and len(e.args) == 1 and isinstance(e.args[0], ast.GeneratorExp)
                and len(e.args[0].generators) == 1 and not e.args[0].generators[0].ifs
                and isinstance(e.args[0].generators[0].target, ast.Name)):
            g = e.args[0].generators[0]
            deleted = None
            it_node = g.iter
            if (isinstance(it_node, ast.Call) and isinstance(it_node.func, ast.Attribute) and it_node.func.attr == "replace"
                    and len(it_node.args) == 2 and all(isinstance(a_, ast.Constant) for a_ in it_node.args)
                    and isinstance(it_node.args[0].value, str) and len(it_node.args[0].value) == 1 and it_node.args[1].value == ""):
                base = self.eval(it_node.func.value, env)
                if isinstance(mk(base), SV) and mk(base).kind == "str":
                    # quantifying over s.replace(c, "") = quantifying over the characters of s other than c
                    return self._char_quantifier(fn.obj is all, e.args[0].elt, g.target.id, mk(base), env, deleted=it_node.args[0].value)
                itv = self.call(self.getattr(base, "replace"), [it_node.args[0].value, ""], {}, it_node, env)
            else:
                itv = self.eval(g.iter, env)
            if isinstance(mk(itv), SV) and mk(itv).kind == "str":
                return self._char_quantifier(fn.obj is all, e.args[0].elt, g.target.id, mk(itv), env)
            items = self.iterate(itv, env, what="comprehension")
            vals = []
            cenv = Env(env.gl, {}, env, env.func)
            for x in items:
                cenv.locals[g.target.id] = x
                vals.append(self.eval(e.args[0].elt, cenv))
            return self.call(fn, [vals], {}, e, env)
        if fn is _NULLFN:
            # logger / progress-banner call: its arguments only describe the message (A-LOG: effect-free, do not raise); an
            # argument outside the modelled subset (e.g. Path.name) must not make the function undecidable
            self.used_models.add("A-LOG: logger calls are effect-free and do not raise")
            for a in list(e.args) + [k.value for k in e.keywords]:
                cp = self.ctx.checkpoint()
                try:
                    self.eval(a.value if isinstance(a, ast.Starred) else a, env)
                    self.ctx.commit(cp)
                except (Unsupported, PyRaise):
                    self.ctx.rollback(cp)
            return None
        args = []
        for a in e.args:
            if isinstance(a, ast.Starred):
                args.extend(self.iterate(self.eval(a.value, env), env))
            else:
                # generator argument to all/any over symbolic list in spec mode => quantifier
                args.append(self.eval(a, env))
        kwargs = {}
        for k in e.keywords:
            if k.arg is None:
                d = self.eval(k.value, env)
                if not isinstance(d, dict):
                    raise Unsupported("** of non-dict")
                kwargs.update(d)
            else:
                kwargs[k.arg] = self.eval(k.value, env)
        return self.call(fn, args, kwargs, e, env)

    def _char_quantifier(self, is_all, elt, var, s: SV, env, deleted=None):
        """all/any(pred(ch) for ch in s) over an unbounded string: pred is evaluated on every ASCII
        character (input domain A-ASCII) and the quantifier becomes a regular-language membership."""
        good = []
        cenv = Env(env.gl, {}, env, env.func)
        for c in range(128):
            cenv.locals[var] = chr(c)
            v = mk(self.eval(elt, cenv))
            if not is_concrete(v):
                raise Unsupported("character predicate depends on symbolic state")
            if chr(c) == deleted:
                if is_all:
                    good.append(chr(c))  # deleted characters are not quantified over
                continue
            if bool(v):
                good.append(chr(c))
        self.used_models.add("A-ASCII: per-character predicates over a symbolic string are enumerated over code points 0..127 (ANTLR FileStream decodes as ASCII)")
        chars = good if is_all else [chr(c) for c in range(128) if chr(c) not in good]
        if chars:
            cls = z3.Union(*[z3.Re(z3.StringVal(c)) for c in chars]) if len(chars) > 1 else z3.Re(z3.StringVal(chars[0]))
            member = z3.InRe(s.t, z3.Star(cls))
        else:
            member = s.t == z3.StringVal("")
        ascii_only = z3.InRe(s.t, z3.Star(z3.Range(z3.StringVal(chr(0)), z3.StringVal(chr(127)))))
        self.ctx.assume(ascii_only)
        return sym.sbool(member if is_all else z3.Not(member))

    def call(self, fn, args, kwargs, node=None, env=None):
        from . import spec as _spec

        if isinstance(fn, IFunc):
            return self.call_ifunc(fn, args, kwargs)
        if isinstance(fn, self.models._Closure):
            return fn.fn(*args, **kwargs)
        if fn is _NULLFN:
            self.used_models.add("A-LOG: logger calls are effect-free and do not raise")
            return None
        if isinstance(fn, _spec.Prim):
            return fn.fn(self, args, kwargs, env)
        if isinstance(fn, BoundM):
            return self.models.call_method(self, fn.obj, fn.name, args, kwargs)
        if isinstance(fn, _Partial):
            return self.call(fn.fn, list(fn.args) + list(args), {**fn.kwargs, **kwargs}, node, env)
        if isinstance(fn, NativeRef):
            return self.models.call_native(self, fn.obj, args, kwargs)
        if isinstance(fn, SOpt):
            fn = sym.force(self.ctx, fn)
            if fn is None:
                raise PyRaise("TypeError", "'NoneType' object is not callable")
            return self.call(fn, args, kwargs, node, env)
        if callable(fn) and is_concrete(fn):
            return self.models.call_native(self, fn, args, kwargs)
        raise Unsupported(f"call of {type(fn).__name__}")


def _ghost_copy(g: dict) -> dict:
    return {k: (list(v) if isinstance(v, list) else dict(v) if isinstance(v, dict) else v) for k, v in g.items()}


class _NullFn:
    pass


_NULLFN = _NullFn()


class _Partial:
    def __init__(self, fn, args, kwargs):
        self.fn, self.args, self.kwargs = fn, args, kwargs


class _SymSet:
    """Set literal with symbolic elements (membership / equality only)."""

    def __init__(self, items):
        self.items = list(items)


class _SymKey:
    """A symbolic string used as key of a python dict whose other keys are concrete."""

    def __init__(self, v):
        self.v = v

    def __hash__(self):
        return id(self)


class _DictView:
    def __init__(self, pairs):
        self._pairs = pairs

    def items(self):
        return self._pairs


def _heapish(v) -> bool:
    if isinstance(v, SOpt):
        return _heapish(v.val)
    return isinstance(v, (Rec, sym.PList, list, dict, SList, SMap))


def _is_none_test(n) -> bool:
    for x in ast.walk(n):
        if isinstance(x, ast.Compare) and any(isinstance(o, (ast.Is, ast.IsNot)) for o in x.ops):
            return True
    return False


def _loops_in_order(fnode):
    out = []

    def visit(n):
        for c in ast.iter_child_nodes(n):
            if isinstance(c, (ast.FunctionDef, ast.Lambda, ast.ClassDef)):
                continue
            if isinstance(c, (ast.For, ast.While)):
                out.append(c)
            visit(c)

    visit(fnode)
    return out


def _check_loop_frame(s, spec, env, idx_name):
    """Every name the loop body (re)binds or mutates must be declared in `modifies` (or be new)."""
    declared = set(spec.get("modifies", {}).keys()) | {idx_name}
    mut = {"append", "extend", "pop", "insert", "remove", "clear", "update", "sort", "add", "discard", "setdefault", "popitem", "reverse"}
    bad = []
    targets: set[str] = set()
    body = s.body + s.orelse
    if isinstance(s, ast.For):
        for n in ast.walk(s.target):
            if isinstance(n, ast.Name):
                targets.add(n.id)
    for st in body:
        for n in ast.walk(st):
            if isinstance(n, ast.Name) and isinstance(n.ctx, ast.Store):
                if n.id not in declared and n.id not in targets and _defined(env, n.id):
                    bad.append(n.id)
            elif isinstance(n, (ast.Attribute, ast.Subscript)) and isinstance(n.ctx, ast.Store):
                root = _root_name(n)
                path = _path_str(n.value if isinstance(n, ast.Subscript) else n)
                if path not in declared and root not in declared and root not in targets:
                    bad.append(path or "?")
            elif isinstance(n, ast.Call) and isinstance(n.func, ast.Attribute) and n.func.attr in mut:
                root = _root_name(n.func.value)
                path = _path_str(n.func.value)
                if path not in declared and root not in declared and not (root and not _defined(env, root)) and root not in targets:
                    bad.append(path or "?")
    if bad:
        raise Unsupported(f"loop modifies {sorted(set(bad))} not declared in modifies")


def _defined(env, name):
    try:
        env.lookup(name)
        return True
    except KeyError:
        return False


def _root_name(n):
    while isinstance(n, (ast.Attribute, ast.Subscript, ast.Call)):
        n = n.value if not isinstance(n, ast.Call) else n.func
    return n.id if isinstance(n, ast.Name) else None


def _path_str(n):
    try:
        return ast.unparse(n)
    except Exception:
        return None


def _load(t):
    import copy

    t2 = copy.deepcopy(t)
    for n in ast.walk(t2):
        if hasattr(n, "ctx"):
            n.ctx = ast.Load()
    return t2


def _handler_names(h):
    if h.type is None:
        return None
    if isinstance(h.type, ast.Name):
        return [h.type.id]
    if isinstance(h.type, ast.Tuple):
        return [x.id for x in h.type.elts if isinstance(x, ast.Name)]
    if isinstance(h.type, ast.Attribute):
        return [h.type.attr]
    return None


def _as_term(x):
    if isinstance(x, bool):
        return z3.BoolVal(x)
    if isinstance(x, SV):
        if x.kind == "bool":
            return x.t
        raise SpecError(f"clause is not boolean: {x!r}")
    if z3.is_expr(x):
        return x
    raise SpecError(f"clause is not boolean: {x!r}")


def _wrapb(t):
    return t if isinstance(t, bool) else sym.sbool(t)


def _not(t):
    return (not t) if isinstance(t, bool) else sym.sbool(z3.Not(t))


def _and(a, b):
    if isinstance(a, bool):
        return b if a else False
    if isinstance(b, bool):
        return a if b else False
    return z3.And(a, b)


def _ite(ctx, t, a, b):
    a, b = mk(a), mk(b)
    if sym.is_boollike(a) and sym.is_boollike(b):
        return sym.sbool(z3.If(t, sym.zbool(a), sym.zbool(b)))
    if sym.is_intlike(a) and sym.is_intlike(b):
        return sym.sint(z3.If(t, sym.zint(a), sym.zint(b)))
    if sym.is_strlike(a) and sym.is_strlike(b):
        if isinstance(a, (BStr, str)) and isinstance(b, (BStr, str)) and len(a) == len(b):
            ca = a.chars if isinstance(a, BStr) else [ord(c) for c in a]
            cb = b.chars if isinstance(b, BStr) else [ord(c) for c in b]
            iv = lambda x: z3.IntVal(x) if isinstance(x, int) else x
            return mk(BStr([z3.simplify(z3.If(t, iv(x), iv(y))) for x, y in zip(ca, cb)]))
        return sym.sstr(z3.If(t, sym.zstr(a), sym.zstr(b)))
    if isinstance(a, SDate) and isinstance(b, SDate):
        return SDate(z3.If(t, a.t, b.t))
    if isinstance(a, (SEnum, enum.Enum)) and isinstance(b, (SEnum, enum.Enum)):
        cls = a.cls if isinstance(a, SEnum) else type(a)
        ty = sym.TEnum(cls)
        return SEnum(z3.If(t, ty.unwrap(ctx, a), ty.unwrap(ctx, b)), cls)
    if isinstance(a, SList) and isinstance(b, SList):
        return SList(sym.sint(z3.If(t, sym.zint(a.length), sym.zint(b.length))), z3.If(t, a.arr, b.arr), a.ety)
    if a is None and b is None:
        return None
    if a is None or b is None or isinstance(a, SOpt) or isinstance(b, SOpt):
        # Optional merge
        def parts(x):
            if x is None:
                return z3.BoolVal(True), None
            if isinstance(x, SOpt):
                return x.isnone, x.val
            return z3.BoolVal(False), x

        na, va = parts(a)
        nb, vb = parts(b)
        if va is None:
            val = vb
        elif vb is None:
            val = va
        else:
            val = _ite(ctx, t, va, vb)
        return SOpt(z3.If(t, na, nb), val)
    if isinstance(a, tuple) and isinstance(b, tuple) and len(a) == len(b):
        return tuple(_ite(ctx, t, x, y) for x, y in zip(a, b))
    # fall back to a fork
    return a if ctx.branch(t, "ite") else b
