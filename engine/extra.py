"""Helpers for deductive obligations produced outside the pyvc interpreter (automata, ATN walks)."""
from __future__ import annotations


def report(function: str, obligations: list[dict], *, backend: str, wall: float, source: str = "", models=()) -> dict:
    obs = []
    refuted = []
    for o in obligations:
        obs.append({"name": o["name"], "kind": o.get("kind", "lemma"), "status": o["status"], "vcs": o.get("vcs", 1),
                    "time_s": round(o.get("time_s", 0.0), 4), "detail": o.get("detail", ""), "backends": [backend],
                    **({"why": o["why"]} if o.get("why") else {})})
        if o["status"] == "refuted":
            refuted.append({"name": o["name"], "kind": o.get("kind", "lemma"), "status": "refuted", "backend": backend,
                            "model": o.get("model"), "detail": o.get("detail", ""), "solver_output": o.get("why", ""),
                            "path": "", "replay_result": o.get("replay_result")})
    n = sum(o.get("vcs", 1) for o in obligations)
    nd = sum(o.get("vcs", 1) for o in obligations if o["status"] == "proved")
    st = "refuted" if refuted else ("proved" if all(o["status"] == "proved" for o in obligations) and obligations else "undecided")
    return {"function": function, "status": st, "source_file": source, "source_lines": [0, 0], "paths": 0,
            "vcs": n, "vcs_discharged": nd, "obligations": obs, "undecided_reason": None, "vacuous": False,
            "solver_time_s": round(wall, 3), "wall_s": round(wall, 3), "backends": {backend: n}, "inlined": [],
            "used_contracts": [], "used_models": list(models), "refuted": refuted}
